"""props.py — per-property request streams and oracles.

For each property Cxx:
  gen_Cxx(ctx)            -> list of Case   (ctx: rng, tier, unicode tables, feature flags)
  oracle_Cxx(ctx, cases, answers) -> list of (index, message)   evaluated on the *implementation's*
                             answers; written from the property text, independent of the model.

A Case is a dict {"req": line, "stream": name, ...meta}.
"""
import itertools, json, os, re, urllib.parse
from purlgen import *

REPO = os.environ.get("PURL_REPO", "/repo")


class Ctx:
    def __init__(self, seed, tier, uni, budget=1.0):
        self.seed, self.tier, self.uni, self.budget = seed, tier, uni, budget

    def rng(self, label):
        return Rng(self.seed * 0x9E3779B97F4A7C15 + 12345).fork(label)

    def n(self, quick, thorough):
        return max(1, int((quick if self.tier == "quick" else thorough) * self.budget))


def case(req, stream, **meta):
    d = {"req": req, "stream": stream}
    d.update(meta)
    return d


# ---------------------------------------------------------------- shared streams

def conformance_strings():
    out = []
    d = os.path.join(REPO, "xtask", "src", "generate_tests")
    for fn in ("test-suite-data.json", "phylum-test-suite-data.json"):
        try:
            with open(os.path.join(d, fn)) as f:
                for rec in json.load(f):
                    for k in ("purl", "canonical_purl"):
                        if isinstance(rec.get(k), str):
                            out.append(rec[k])
        except (OSError, ValueError):
            pass
    extra = ["pkg:t/n?k=a%26b", "pkg:t/n?k=a%26l=c", "pkg:nuget/%C7%85", "pkg:nuget/%C7%85%C3%80", "pkg:maven///n",
             "pkg:t/n#%2e%2e/x", "pkg:t/n#a/../%2e%2e", "pkg:npm/@a/b@1", "pkg:npm/%40a/b@1?x=@&y==", "pkg:t/n@1/2",
             "pkg:t/n?checksum=SHA1:AB,md5:00", "pkg:t/n?checksum=a:0", "pkg:t/n?checksum=a:00,A:11", "pkg:t/n?K=1&k=2",
             "pkg:t/n?K=&k=2", "pkg:t/%80", "pkg:t/n@%C3", "pkg:t/a%2Fb/n", "pkg:t/n#a%2fb", "pkg:", "pkg:/", "pkg:t",
             "pkg:t/", "pkg:t/n?", "pkg:t/n#", "pkg:t/n@", "pkg:T+x.y-1/n", "PKG:t/n", "pkg:t/n?=v", "pkg:t/n?k",
             "pkg:pypi/A_.-b", "pkg:pypi/%C7%85_-A", "pkg:t/n?checksum=", "pkg:t/n?checksum=:", "pkg:t/n?checksum=:,b:",
             "pkg:t//n", "pkg:t/n/", "pkg:t/n//", "pkg:t/n@1@2", "pkg:t/n?a=1?b=2", "pkg:t/n#a#b", "pkg:%74/n", "pkg:t/n?k%41=v"]
    seen = set()
    res = []
    for s in out + extra:
        if s not in seen:
            seen.add(s)
            res.append(s)
    return res


def st_conformance(shapes):
    return [case("parse %s %s" % (sh, hx(s)), "conformance", s=s, shape=sh) for s in conformance_strings() for sh in shapes]


def st_spellings(ctx, n, shapes, label="spell", typed_known=True, group=2):
    """`group` spellings of each tuple"""
    r = ctx.rng(label)
    out = []
    gid = 0
    while len(out) < n:
        plain = r.chance(1, 5)
        for sh in shapes:
            ty = None
            if sh == "P":
                ty = flipcase(r, r.pick(KNOWN_TYPES)) if (typed_known and not r.chance(1, 8)) else None
            t = rand_tuple(r, plain=plain, ty=ty)
            gid += 1
            for _ in range(group):
                s, used = spell(r, t)
                out.append(case("parse %s %s" % (sh, hx(s)), "spelling", s=s, shape=sh, tuple=t.to_json(), used=used,
                                group="%s%d" % (sh, gid)))
    return out


MUTATIONS = ["del", "dup", "swap", "ins", "pctbreak", "upper", "trunc"]


def mutate(r, s):
    if not s:
        return r.pick(ALPHABET)
    m = r.pick(MUTATIONS)
    i = r.below(len(s))
    if m == "del":
        return s[:i] + s[i + 1:]
    if m == "dup":
        return s[:i] + s[i] + s[i:]
    if m == "swap" and len(s) > 1:
        j = r.below(len(s))
        l = list(s)
        l[i], l[j] = l[j], l[i]
        return "".join(l)
    if m == "ins":
        return s[:i] + r.pick(ALPHABET + TEXTS) + s[i:]
    if m == "pctbreak":
        return s[:i] + r.pick(["%", "%8", "%80", "%C3", "%c3%28", "%E2%82", "%ED%A0%80", "%F4%90%80%80", "%C0%AF", "%2", "%zz",
                               "%2F", "%2f", "%2e", "%2E%2e", "%00"]) + s[i:]
    if m == "upper":
        return s.upper()
    return s[:i]


def st_malformed(ctx, n, shapes, label="malformed"):
    r = ctx.rng(label)
    base = conformance_strings()
    out = []
    while len(out) < n:
        if r.chance(1, 3):
            s = r.pick(base)
        else:
            s, _ = spell(r, rand_tuple(r, ty=(r.pick(KNOWN_TYPES) if r.chance(1, 3) else None)))
        for _ in range(1 + r.below(3)):
            s = mutate(r, s)
        if r.chance(1, 10):
            s = rand_text(r, 0, 12)
        sh = r.pick(shapes)
        out.append(case("parse %s %s" % (sh, hx(s)), "malformed", s=s, shape=sh))
    return out


TOKENS_Q = ["/", "@", "?", "#", "&", "=", "%2F", "%2e", "%80", ".", "..", "a", "A", "é", "+", "t", "checksum", "a:00", ","]
TOKENS_T = ["/", "@", "?", "#", "&", "=", "%2F", "%2f", "%2e", "%2E", "%41", "%80", "%C3%A9", ".", "..", "a", "A", "é", "+",
            " ", "checksum", ":", ",", "00", "0", "t"]


def st_tokens(ctx, shapes, maxlen, tokens, prefix="pkg:"):
    out = []
    for k in range(0, maxlen + 1):
        for tup in itertools.product(tokens, repeat=k):
            s = prefix + "".join(tup)
            for sh in shapes:
                out.append(case("parse %s %s" % (sh, hx(s)), "tokens", s=s, shape=sh))
    return out


def st_token_sample(ctx, n, shapes, tokens, label="toksample", lo=3, hi=9):
    r = ctx.rng(label)
    out = []
    for _ in range(n):
        k = lo + r.below(hi - lo + 1)
        s = "pkg:" + r.pick(["t/", "t/", "nuget/", "maven/", "pypi/", ""]) + "".join(r.pick(tokens) for _ in range(k))
        sh = r.pick(shapes)
        out.append(case("parse %s %s" % (sh, hx(s)), "token-sample", s=s, shape=sh))
    return out



# ---------------------------------------------------------------- products of component classes

KEL = "\u212a"
# names as they appear in other tools' requirement / file syntaxes (none of this means anything to a PURL)
ECO_NAMES = ["requests[security]", "Zope.Interface[Test_Extra]", "[Foo_Bar]x]", "a[b]c", "x[]", "django>=4.2", "numpy==1.26.*", "pkg~=1.0", "lodash@^4.17",
             "left-pad@~1.3", "serde/derive", "tokio+full", "name; python_version<'3'", "egg#egg=foo", "Newtonsoft.Json.13.0.1.nupkg", "rails-7.0.gem",
             "foo-1.0-py3-none-any.whl", "commons-io-2.11.jar", "a.tar.gz", "v1.2.3", "1.0.0-SNAPSHOT", "@types/node@18", "github.com/a/b/v2@v2.0.1",
             "(group)", "{name}", "name*", "~user", "name!", "$name", "na,me", "name\\path", "\"quoted\"", "<angle>", "name|pipe", "`tick`", "^caret",
             "node_modules/@babel/core", "node_modules/left-pad", "node_modules/send/node_modules/ms", "vendor/github.com/a/b", "site-packages/requests",
             "org/apache/commons/commons-io", "gems/rake-13.0.6", "registry/src/index.crates.io/serde-1.0", "npm:@scope/pkg", "git+https://github.com/a/b.git",
             "file:../local", "workspace:*", "src/github.com/a/b", "pkg/mod/github.com/a/b@v1.2.3", "packages/Newtonsoft.Json.13.0.3",
             "xn--bcher-kva.example/mod/pkg", "XN--BCHER-KVA.Example/a", "xn--/a", "b\u00fccher.example/mod/pkg", "xn--nxasmq6b.com/x", "host:8080/a/b", "user@host/a/b",
             "127.0.0.1/a", "[::1]/a", "example.com./a", "EXAMPLE.com/A/b", "www.example.com/a", "example.com//a", "localhost/a",
             "name.git", "name.GIT", "lib.so.6", "pkg:npm/foo", "pkg%3Anpm", "file:///x", "C:\\x", "name ", " name", "na me", "name\t", "Name.Exe"]
CLS_TYPE = ["t", "cargo", "gem", "golang", "maven", "npm", "nuget", "pypi", "deb", "carg0", "rnaven", "g3m"]
CLS_NS = [[], ["acme"], ["@scope"], ["github.com", "phylum-dev"], ["%40scope%2Fevil"], ["\u00dcn\u00ef", "\u01c5" + KEL], ["a:b c&d=e"],
          ["x" * 30], ["g"], ["org.apache.commons", "sub+group"], ["example.org", "user", "repo.git", "cmd"],
          ["example.org", "repo.git", "..", "..", "etc"], [".", "a.git", "."]]
CLS_NAME = ["name", "a/b", "%2Fetc", "tool.git", "n@m", "Foo_.-Bar", "\u039f\u0394\u039f\u03a3", "\u0130" + KEL + "-x", "100%25", "n" * 40, "g:a", "report%2520final",
            "@types/node", "\u023a\u023a_", "a+b c", "requests[security]", "Zope.Interface[Test_Extra]", "django>=4.2", "commons-io-2.11.jar",
            "zope--interface", "a---b--c", "x__y", "x..y", "-lead", "trail-", "S\u00c9-\u00c9s", "\u023aB", "Json.\u023aNET", "\u0130stanbulGIS"]
CLS_VER = [None, "1.0", "1.0/beta", "v@1", "1.0.0-rc.1+build.5", "\u00fc1", "%2F%2e", "1.0?x#y", "1.0.0.0", "13.0.3.00", "01.02", "1.0.0+incompatible", "V1.2.3-BETA"]
CLS_QUALS = [
    ([], None),
    ([("arch", "x86")], None),
    ([("vcs_url", "git+https://github.com/a/b.git@abc#frag")], None),
    ([("checksum", None)], [("sha1", "00ff")]),
    ([("checksum", None)], [("md5", "00"), ("sha1", "11"), ("sha512", "22")]),
    ([("a_b", "1"), ("aab", "2"), ("a-b", "3")], None),
    ([("file_name", "a.tgz"), ("file-name", "b.tgz"), ("file.name", "c")], None),
    ([("repository_url", "https://a.example/"), ("repository-url", "https://b.example/"), ("vcs.url", "x")], None),
    ([("download_url", "https://e.com/x?y=1&z=2"), ("type", "jar"), ("classifier", "sources")], None),
    ([("repository_url", "svn+ssh://host/r+1"), ("checksum", None), ("zz", "%41")], [("a", ""), ("b", "0a")]),
]
CLS_SUB = [[], ["src", "main.rs"], ["a", "...", "b"], ["\u00e9#?", "x y"], ["%2e%2e"], ["googleapis", "api", "@v1"]]
CLS_FACTORS = [CLS_TYPE, CLS_NS, CLS_NAME, CLS_VER, CLS_QUALS, CLS_SUB]


def cls_tuple(r, idx, shape):
    ty = CLS_TYPE[idx[0]]
    ty = flipcase(r, ty) if r.chance(1, 3) else ty
    quals, cks = CLS_QUALS[idx[4]]
    name = CLS_NAME[idx[2]]
    ns = list(CLS_NS[idx[1]])
    if name == "g:a" and ns and r.chance(1, 2):
        name = ns[-1] + ":a"           # a name that starts with its own namespace
    return Tuple(ty, ns, name, CLS_VER[idx[3]], [(k, v) for k, v in quals], list(CLS_SUB[idx[5]]), list(cks) if cks else None)


def cls_indices(ctx, r):
    """every combination of classes of any THREE components (the other three random); thorough: the full product"""
    sizes = [len(f) for f in CLS_FACTORS]
    if ctx.tier == "thorough":
        # the full product has 3.5 million members and every check that uses it held several copies of it in memory
        # (47 GB for C03): the thorough tier walks the product with a stride that shares no factor with any class
        # count, from a seed-dependent offset (about 300 000 members per run), after the triples of the quick tier
        total = 1
        for n in sizes:
            total *= n
        stride = max(1, total // 300000)
        while stride > 1 and any(n % stride == 0 or stride % n == 0 for n in sizes if n > 1):
            stride += 1
        k = ctx.seed % stride
        while k < total:
            idx, x = [], k
            for n in reversed(sizes):
                idx.append(x % n)
                x //= n
            yield list(reversed(idx))
            k += stride
    for tri in itertools.combinations(range(len(sizes)), 3):
        for combo in itertools.product(*[range(sizes[i]) for i in tri]):
            idx = [r.below(n) for n in sizes]
            for i, v in zip(tri, combo):
                idx[i] = v
            yield idx


def echo_tuples(r):
    """tuples whose components repeat one another (a subpath that spells namespace/name, a namespace equal to the
    name, a version equal to the type, qualifiers named after components …): relations between components, which
    independent draws practically never produce"""
    out = []
    bases = [(["github.com", "gorilla"], "mux", "v1.8.0"), (["a"], "b", "1"), (["org.apache"], "commons-io", "2.11"), (["@scope"], "pkg", "1.0.0"),
             (["Foo_Bar"], "Foo_Bar", "Foo_Bar")]
    for ty in CLS_TYPE:
        for ns, name, ver in bases:
            subs = [ns + [name, "middleware"], ns + [name], [name, "c"], list(ns), ns + [name + "x", "c"], ["x"] + ns + [name, "c"], [ty, name],
                    [ver]]
            for sub in subs:
                out.append(Tuple(ty, list(ns), name, ver, [], sub, None))
            out.append(Tuple(ty, [name], name, name, [], [name], None))
            out.append(Tuple(ty, [ty], ty, ty, [("type", ty)], [ty], None))
            out.append(Tuple(ty, list(ns), name, ver, [("name", name), ("namespace", "/".join(ns)), ("version", ver), ("subpath", "a/b"), ("type", ty)], [], None))
            out.append(Tuple(ty, list(ns), name, ver, [("vcs_url", "git+https://%s/%s.git@%s" % ("/".join(ns), name, ver)),
                                                       ("download_url", "pkg:%s/%s/%s@%s" % (ty, "/".join(ns), name, ver))], ns + [name], None))
    return out


def dict_tuples():
    """tuples that carry the tokens of the library's CURRENT source (tools/srcdict.py) in every component, alone and
    next to each separator — deterministic; a word the code has just learnt is an input of the same run"""
    import srcdict
    out = []
    keyre = re.compile(r"^[a-z][a-z0-9._-]*\Z")
    algre = re.compile(r"^[a-z0-9][a-z0-9-]*\Z")
    for t in srcdict.source_tokens():
        segs = [x for x in t.split("/") if x and x not in (".", "..")]
        names = [t] + [a + sep + b for sep in (":", "/", "@", ".", "-", "_", "=", "+", " ") for a, b in (("tool", t), (t, "tool"))] + ["org.acme:tool:" + t, "a/b/" + t]
        for nm in names:
            out.append(Tuple("t", ["ns"], nm, "1.0", [("k", "v")], ["s"], None))
        for ty in ("npm", "maven", "pypi", "golang", "nuget", "cargo", "gem"):
            out.append(Tuple(ty, ["org.acme"], t, "1.0", [], [], None))
            out.append(Tuple(ty, ["org.acme"], "tool:" + t, "1.0", [], [], None))
            out.append(Tuple(ty, ["org.acme"], "tool-" + t, t, [], [], None))
            if segs:
                out.append(Tuple(ty, segs, "tool", "1.0", [], list(segs), None))
                out.append(Tuple(ty, ["a"] + segs, t, None, [], ["x"] + segs + ["y"], None))
        if segs:
            out.append(Tuple("t", segs, "name", "1.0", [], [], None))
            out.append(Tuple("t", ["a"] + segs + ["b"], "name", "1.0", [], ["s"], None))
            out.append(Tuple("t", ["ns"], "name", "1.0", [], segs, None))
            out.append(Tuple("t", ["ns"], "name", "1.0", [], ["a"] + segs + ["b"], None))
        for ver in [t] + ["1" + sep + t for sep in ("-", "+", ".", "@", "/", ":", "~")] + [t + "1.0"]:
            out.append(Tuple("t", ["ns"], "name", ver, [], [], None))
        for k_ in ("k", "repository_url", "download_url", "vcs_url", "file_name", "type", "classifier", "arch", "ext"):
            out.append(Tuple("t", [], "name", "1.0", [(k_, t)], [], None))
            out.append(Tuple("maven", ["g"], "a", "1.0", [(k_, "x" + t + "y"), ("zz", t)], [], None))
        if keyre.match(t.lower()) and t.lower() not in ("checksum", "zz9"):
            out.append(Tuple("t", [], "name", "1.0", [("zz9", "1"), (t.lower(), "v")], [], None))
            out.append(Tuple("npm", [], "name", None, [(t.lower(), t)], [], None))
        if algre.match(t.lower()):
            out.append(Tuple("t", [], "name", "1.0", [("checksum", None)], [], [(t.lower(), "00ff"), ("sha1", "ab")] if t.lower() != "sha1" else [("sha1", "ab")]))
    return out


def st_classes(ctx, shapes, label="classes"):
    """parse requests: legal spellings of tuples drawn from the product of component classes (realistic values:
    npm scopes, URLs with compound schemes, versions with '/', '+', '@', literal escapes, non-ASCII cased letters,
    names that start with their namespace, checksums with several entries …)"""
    r = ctx.rng(label)
    out = []
    gid = 0
    tuples = [cls_tuple(r, idx, None) for idx in cls_indices(ctx, r)] + echo_tuples(r) + dict_tuples()
    for t in tuples:
        sh = r.pick(shapes)
        gid += 1
        fr = default_freedoms(r)
        if r.chance(1, 2):
            fr["pct"] = 0                  # keep raw what may be raw: raw '@' scopes, raw '/' in versions, …
        s, used = spell(r, t, fr)
        out.append(case("parse %s %s" % (sh, hx(s)), "spelling", s=s, shape=sh, tuple=t.to_json(), used=used, group="k%s%d" % (sh, gid)))
    return out


BUILD_NS_FORMS = [lambda x: x, lambda x: "/" + x + "/", lambda x: x.replace("/", "///"), lambda x: x.replace("/", "//") + "//"]
BUILD_SUB_FORMS = [lambda x: x, lambda x: "/" + x + "/", lambda x: "./" + x.replace("/", "/./") + "/..", lambda x: x.replace("/", "////")]
IDENT_OF = {"cargo": "Cargo", "gem": "Gem", "golang": "Golang", "maven": "Maven", "npm": "Npm", "nuget": "NuGet", "pypi": "PyPI"}


def st_classes_build(ctx, shapes, label="classes-build"):
    """the same product through the builder (values given un-normalised: extra / doubled / tripled slashes, dot pieces)"""
    r = ctx.rng(label)
    out = []
    tuples = [cls_tuple(r, idx, None) for idx in cls_indices(ctx, r)] + echo_tuples(r) + dict_tuples()
    for t in tuples:
        sh = r.pick(shapes)
        tyl = t.ty.lower()
        if sh == "P":
            if tyl not in IDENT_OF:
                continue
            ty = IDENT_OF[tyl]
        else:
            ty = hx(t.ty)
        steps = []
        if t.ns:
            steps.append("ns:" + hx(r.pick(BUILD_NS_FORMS)("/".join(t.ns))))
        if t.version is not None:
            steps.append("ver:" + hx(t.version))
        for k, v in t.quals:
            steps.append("q:%s:%s" % (hx(flipcase(r, k)), hx(checksum_spell(r, t.cks) if v is None else v)))
        if t.sub:
            steps.append("sub:" + hx(r.pick(BUILD_SUB_FORMS)("/".join(t.sub))))
        steps = r.shuffle(steps)
        out.append(case("build %s %s %s %s" % (sh, ty, hx(t.name), ";".join(steps) if steps else "-"), "builder", shape=sh))
    return out


# ---------------------------------------------------------------- length boundaries

LEN_BOUNDS = [15, 16, 22, 23, 24, 25, 31, 32, 33, 63, 64, 65, 127, 128, 129, 130, 131, 132, 255, 256, 257]
LONG_SLOTS = ["type", "ns", "ns2", "name", "ver", "qkey", "qval", "ckalg", "ckhex", "sub", "sub2"]


def long_piece(L, variant):
    """a component spelling of raw length L: plain / raw non-ASCII / an escape at the start, middle or end"""
    if variant == "plain":
        return ("ab" * L)[:L]
    if variant == "upper":
        return ("aB" * L)[:L]
    if variant == "nonascii":
        return "é" * (L // 2) + ("a" if L % 2 else "")
    if variant in ("stray1", "stray2", "stray3"):
        # literal '%' that is no escape (kept as written): at the end, before one hex digit, several of them —
        # length estimates that count every '%' as a three-byte escape come out too low exactly here
        tail = {"stray1": "%", "stray2": "%a", "stray3": "%%41%"}[variant]
        fill = max(0, L - len(tail))
        return ("ab" * fill)[:fill] + tail
    esc = {"slash0": "%2F", "slashM": "%2f", "slashE": "%2F", "pct41": "%41", "bad": "%zz", "dots": "..."}[variant]
    fill = max(0, L - len(esc))
    if variant == "slash0":
        return esc + ("ab" * fill)[:fill]
    if variant in ("slashE", "bad"):
        return ("ab" * fill)[:fill] + esc
    h = fill // 2
    return ("ab" * fill)[:h] + esc + ("ab" * fill)[h:fill]


def long_string(slot, L, variant, ty="t"):
    x = long_piece(L, variant)
    hexd = ("0a1B" * L)[:L]
    parts = {"type": ty, "ns": "n", "name": "nm", "ver": "1", "q": "k=v", "sub": "s"}
    if slot == "type":
        parts["type"] = ("t" + x.replace("%", "").replace(".", ""))[:L] if variant in ("plain", "upper") else x
    elif slot == "ns":
        parts["ns"] = x
    elif slot == "ns2":
        parts["ns"] = "a/" + x + "/b"
    elif slot == "name":
        parts["name"] = x
    elif slot == "ver":
        parts["ver"] = x
    elif slot == "qkey":
        parts["q"] = ("k" + x)[:L] + "=v" if variant in ("plain", "upper") else x + "=v"
    elif slot == "qval":
        parts["q"] = "k=" + x
    elif slot == "ckalg":
        parts["q"] = "checksum=" + x + ":00"
    elif slot == "ckhex":
        parts["q"] = "checksum=sha512:" + (hexd if variant in ("plain", "upper") else hexd[:-1] + "z" if variant == "bad" else hexd + ",b:" + hexd)
    elif slot == "sub":
        parts["sub"] = x
    elif slot == "sub2":
        parts["sub"] = "a/" + x + "/b"
    return "pkg:%s/%s/%s@%s?%s#%s" % (parts["type"], parts["ns"], parts["name"], parts["ver"], parts["q"], parts["sub"])


def st_long(ctx, shapes, label="long", every=False):
    """every component at raw lengths around the usual capacity boundaries (inline-string capacity, 64/128/256-byte
    buffers), plain and with an escape at the start / middle / end; the thorough tier walks every length up to 300"""
    out = []
    lens = list(range(0, 301)) if every else [l + d for l in LEN_BOUNDS for d in (0,)]
    variants = ["plain", "upper", "nonascii", "slash0", "slashM", "slashE", "pct41", "bad", "dots"]
    r = ctx.rng(label)
    for slot in LONG_SLOTS:
        for L in lens:
            for v in variants:
                if not every and v in ("upper", "pct41", "dots") and L not in (23, 24, 64, 65, 128, 130):
                    continue
                ty = r.pick(["t", "maven", "nuget", "pypi", "npm", "golang"])
                s = long_string(slot, L, v, ty)
                sh = r.pick(shapes)
                out.append(case("parse %s %s" % (sh, hx(s)), "long", s=s, shape=sh))
    # a second pass with its own generator (the draws above stay as the full replays validated them)
    r2 = ctx.rng(label + "-stray")
    for slot in LONG_SLOTS:
        for L in lens:
            for v in ("stray1", "stray2", "stray3"):
                ty = r2.pick(["t", "maven", "nuget", "pypi", "npm", "golang"])
                s = long_string(slot, L, v, ty)
                sh = r2.pick(shapes)
                out.append(case("parse %s %s" % (sh, hx(s)), "long", s=s, shape=sh))
    return out


def st_long_api(ctx, label="long-api"):
    """the same boundaries through the builder, the qualifier API and the Checksum API"""
    out = []
    for L in LEN_BOUNDS:
        x = long_piece(L, "plain")
        hexd = ("0a1B" * L)[:L]
        nb = "ab" * L                        # L bytes, as hex
        for sh in ("S", "P", "M"):
            ty = "Maven" if sh == "P" else hx("t")
            out.append(case("build %s %s %s ns:%s;ver:%s;sub:%s;q:%s:%s" % (sh, ty, hx(x), hx(x), hx(x), hx(x + "/" + x), hx("k"), hx(x)), "long", shape=sh))
            out.append(case("build %s %s %s q:%s:%s" % (sh, ty, hx("n"), hx("checksum"), hx("sha512:" + hexd)), "long", shape=sh))
            out.append(case("build %s %s %s q:%s:%s" % (sh, ty, hx("n"), hx(("k" + x)[:L]), hx("v")), "long", shape=sh))
        out.append(case("quals ins:%s:%s;ins:%s:%s;get:%s;iter" % (hx(("k" + x)[:L]), hx(x), hx("checksum"), hx("a:" + hexd), hx(("K" + x.upper())[:L])), "long"))
        out.append(case("cksum ins:%s:%s;ins:%s:%s;text;iter;rt" % (hx("sha512"), nb, hx(x), nb[:8]), "long"))
    return out

def st_huge(ctx, label="huge"):
    """inputs of 64 KiB (thorough: also 1 MiB) built from one repeated unit in every position — run on the
    implementation only (`nomodel`: the list-based model is not meant for megabyte inputs); what is decided on them
    is C06: an answer comes back (no panic, abort, stack overflow, hang)"""
    out = []
    sizes = [65536] if ctx.tier == "quick" else [65536, 1048576]
    units = ["a", "/", "%41", "%2F", "%2f", "é", "%C3%A9", "%80", ".", "./", "../", "@", "#", "?", "&", "=", ":", ",", "a,", "a:00,",
             "%", "A", "-_.", " "]
    for n in sizes:
        for u in units:
            body = (u * (n // len(u) + 1))[:n]
            for s in ("pkg:t/" + body, "pkg:t/" + body + "/n", "pkg:t/n@" + body, "pkg:t/n?k=" + body, "pkg:t/n#" + body,
                      "pkg:" + body, "pkg:pypi/" + body, "pkg:nuget/" + body, "pkg:t/n?checksum=" + body, "pkg:t/n?" + body, body):
                out.append(case("parsel %s %s" % ("P" if "pypi" in s or "nuget" in s else "S", hx(s)), "huge", s=s[:40] + "…", shape="S", nomodel=True))
        # many distinct qualifiers (sorted insertion), many checksum entries
        k = 4000 if n == 65536 else 20000
        out.append(case("parsel S " + hx("pkg:t/n?" + "&".join("k%d=v" % i for i in range(k))), "huge", s="many-quals", shape="S", nomodel=True))
        out.append(case("parsel S " + hx("pkg:t/n?" + "&".join("k%d=v" % i for i in reversed(range(k)))), "huge", s="many-quals-rev", shape="S", nomodel=True))
        out.append(case("parsel S " + hx("pkg:t/n?checksum=" + ",".join("a%d:00" % i for i in range(k))), "huge", s="many-cksum", shape="S", nomodel=True))
        out.append(case("parsel S " + hx("pkg:t/" + "/".join("s%d" % i for i in range(k)) + "/n#" + "/".join("s%d" % i for i in range(k))), "huge", s="many-segs", shape="S", nomodel=True))
    return out


# ---------------------------------------------------------------- builder scripts

LONGV = "https://example.com/downloads/name-1.0.0.tar.gz"      # longer than any inline small-string representation
VALUE_UNIVERSE = ["", "a", "A", "a/b", "...", "a/.../b", "..../x", "x/.....", "/", "//a//", "a/./b/../c", "..", ".", "x y", "a&b=c", "a%2Fb", "%", "@1", "?q#f", "é", "ǅ",
                  "İK", "A_.-b", "1.0", "sha1:AB,md5:00", "sha1:zz", "a:0", ":", "\x00\x7f", "+", "😀", LONGV] + URL_ODD
KELVIN = "\u212a"   # lower-cases to ASCII 'k' (the only non-ASCII scalar whose lower-case mapping is one ASCII letter)
KEY_UNIVERSE = ["a_b", "aab", "AAB", "A_B", "a_", "aa", "k", "K", "key", "Key", KELVIN, KELVIN + "ey", "ke" + KELVIN, "\u0130", "checksum", "Checksum", "CHECKSUM", "repository_url", "a.b", "a-b", "a_b", "1a", "", "a b",
                "é", "k%41", "a=b", "zz", "type", "checksums", "Checksums", "hashes", "sha256", "vers", "Vers", "version", "s", "ss", "st", "file_name", "fi", "ff"]


KEY_HEAVY = ["a", "arch", "b", "c", "classifier", "distro", "epoch", "os", "type", "vcs_url", "repository_url", "zz", "a_b", "aab", "k", "Key", "vers", "version", "s", "ss", "st", "file_name"]


def rand_value(r):
    if r.chance(1, 2):
        return r.pick(VALUE_UNIVERSE)
    return rand_text(r, 0, 6)


def rand_builder_step(r, shape):
    c = r.below(28)
    v = lambda: hx(rand_value(r))
    k = lambda: hx(r.pick(KEY_UNIVERSE))
    if c < 3:
        return "ns:" + v()
    if c == 3:
        return "-ns"
    if c < 6:
        return "name:" + v()
    if c < 8:
        return "ver:" + v()
    if c == 8:
        return "-ver"
    if c < 11:
        return "sub:" + v()
    if c == 11:
        return "-sub"
    if c == 12:
        return "ty:" + rand_type_tok(r, shape)
    if c < 17:
        return "q:%s:%s" % (k(), v())
    if c == 17:
        return "-q:" + k()
    if c == 18:
        return "-qs" if r.chance(1, 4) else "q:%s:%s" % (k(), v())
    if c == 19:
        return "tq:%d:%s" % (r.below(9), v())
    if c == 20:
        return "-tq:%d" % r.below(9)
    if c == 21:
        return "ck:" + rand_cksum_script(r, "+", ".", mutate_only=True)
    if c == 22:
        return "-ck"
    if c == 23:
        if r.chance(1, 3):
            # a long value put into a field of `parts`, then emptied in place (the allocation stays)
            f = r.pick(["ns", "ver", "sub"])
            return "p%s:%s;t%s" % (f, hx(LONGV.replace(":", "_") if f != "ver" else LONGV), f)
        return r.pick(["pns:", "pname:", "pver:", "psub:"]) + v()
    if c < 27:
        return "pq:" + rand_quals_step(r, ".")
    return "q:%s:%s" % (hx("checksum"), hx(r.pick(["sha1:AB,md5:00", "a:00", "A:11,a:00", "sha1:zz", "a:0", "x", "b:,a:"])))


def rand_type_tok(r, shape):
    if shape == "P":
        return r.pick(IDENTS)
    if r.chance(1, 6):
        return hx(r.pick(["", "!", "a b", "é", "T/x", "%41", "Ab.+-9", "A", "1", "pac\u212a", "\u212a", "\u212aA", "a\u0130", "\u01c5b"]))
    return hx(rand_type(r))


def rand_builder_case(r, shape, maxsteps=6):
    ty = rand_type_tok(r, shape)
    name = hx(rand_value(r) if r.chance(1, 3) else rand_text(r, 1, 5))
    n = r.below(maxsteps + 1)
    if r.chance(1, 5):
        # qualifier-heavy: several distinct keys, then removals from the front / middle, then anything
        ks = []
        for k in [r.pick(KEY_HEAVY) for _ in range(3 + r.below(3))]:
            if k.lower() not in [x.lower() for x in ks]:
                ks.append(k)
        steps = ["q:%s:%s" % (hx(k), hx(r.pick(["1", "v", "x y", "é"]))) for k in ks]
        for _ in range(1 + r.below(2)):
            k = r.pick(sorted(ks, key=str.lower)[:max(1, len(ks) - 1)])
            k = k.upper() if r.chance(1, 3) else k
            steps.append(r.pick(["-q:" + hx(k), "pq:rm." + hx(k), "q:%s:%s" % (hx(k), "")]))
        steps += [rand_builder_step(r, shape) for _ in range(r.below(3))]
    else:
        steps = [rand_builder_step(r, shape) for _ in range(n)]
    if steps and r.chance(1, 3):
        # build, take the result's builder, go on: what a value carries from one build to the next must not matter.
        # Half of the time with an edit of a qualifier that certainly exists, right after the rebuild (IndexMut on an
        # absent key is a documented panic)
        at = 1 + r.below(len(steps))
        if r.chance(1, 2):
            ensure, edit = r.pick([
                ("q:%s:%s" % (hx("checksum"), hx("SHA1:00FF")), "pq:idxmut.%s.%s" % (hx("checksum"), hx(r.pick(["SHA256:ABCD,MD5:00FF", "sha1:xyz", ""])))),
                ("q:%s:%s" % (hx("arch"), hx("x86")), "pq:idxmut.%s.%s" % (hx("Arch"), hx(""))),
                ("q:%s:%s" % (hx("checksum"), hx("sha1:00ff")), "pq:retlt.%s" % hx("checksum")),
                ("q:%s:%s" % (hx("checksum"), hx("sha1:00ff,md5:AA")), "pq:ent.%s.orm.%s" % (hx("Checksum"), hx(""))),
                ("q:%s:%s" % (hx("arch"), hx("x86")), "pq:imut.%s" % hx("")),
                ("q:%s:%s" % (hx("zz"), hx("1")), "pq:retne"),
                ("q:%s:%s" % (hx("download_url"), hx(LONGV)), "pq:trunc.%s.%s" % (hx("Download_URL"), r.pick(["t", "d", "r", "p"]))),
                ("q:%s:%s" % (hx("checksum"), hx("sha256:" + "00" * 32)), "pq:trunc.%s.t" % hx("checksum"))])
            steps[at:at] = [ensure, "rb", edit]
        else:
            steps[at:at] = ["rb"]
    script = ";".join(steps) if steps else "-"
    return case("build %s %s %s %s" % (shape, ty, name, script), "builder", shape=shape)


def st_builder(ctx, n, shapes, label="builder", maxsteps=6):
    r = ctx.rng(label)
    return [rand_builder_case(r, r.pick(shapes), maxsteps) for _ in range(n)]


def st_builder_multishape(ctx, n, shapes, label="builder-multi"):
    """the same builder script for several string shapes (C13)"""
    r = ctx.rng(label)
    out = []
    for i in range(n):
        c = rand_builder_case(r, "S")
        for sh in shapes:
            d = dict(c)
            d["req"] = c["req"].replace("build S ", "build %s " % sh, 1)
            d["shape"] = sh
            d["group"] = "b%d" % i
            out.append(d)
    return out


# ---------------------------------------------------------------- qualifier scripts

def rand_quals_step(r, sep=":"):
    k = lambda: hx(r.pick(KEY_UNIVERSE))
    v = lambda: hx(r.pick(["", "1", "2", "v", "x y", "é", LONGV]))
    c = r.below(31)
    J = sep.join
    if c < 6:
        return J(["ins", k(), v()])
    if c < 8:
        return J(["get", k()])
    if c == 8:
        return J(["has", k()])
    if c == 9:
        return J(["mut", k(), v()])
    if c < 12:
        return J(["rm", k()])
    if c < 18:
        act = r.pick(["oi", "oiw", "am", "get", "oins", "orm", "orme", "vins"])
        return J(["ent", k(), act, v()])
    if c == 18:
        return "retne"
    if c == 19:
        return J(["retlt", k()])
    if c == 20:
        return J(["retmut", v()])
    if c == 21:
        return "clear" if r.chance(1, 4) else "len"
    if c == 22:
        return r.pick(["iter", "riter", "len", "ends", "tgck", "eqf", "eqf", "snap", "snap"])
    if c == 23:
        return J([r.pick(["imut", "rimut"]), v()])
    if c == 24:
        n = r.below(4)
        items = []
        for _ in range(n):
            items += [k(), v()]
        return J([r.pick(["tfi", "tfi", "cf", "tfih"])] + items)
    if c == 25:
        return J([r.pick(["eqk", "cmpk"]), str(r.below(3)), hx(r.pick(KEY_UNIVERSE + ["ǅ", KELVIN, "KEY", "İ", "\u017f", "\u00df", "\ufb06", "\ufb01le_name", "\ufb01", "\ufb00",
                                                                               "S", "SS", "\u1e9e", "St", "\u017ft", "FILE_NAME", "\u0131", "\u03c2", "\u00b5"]))])
    if c == 26:
        return J([r.pick(["gett", "hast", "rmt"]), str(r.below(10))])
    if c == 27:
        return J(["inst", str(r.below(9)), v()])
    if c == 28:
        return J(["ins", k(), v()])
    if c == 30:
        return J(["trunc", k(), r.pick(["t", "d", "r", "p"])])
    if r.chance(1, 2):
        # try_insert_typed of a checksum that may be refused (odd / non-hex digits): then nothing may change
        return J(["tit", hx(r.pick(["sha1", "MD5", "a:b", "", "sha1,md5", "a,b:c", ",", " x"])), hx(r.pick(["00ff", "AB", "zz", "0", "", "0g"]))])
    return J(["get", k()])


def st_quals(ctx, n, label="quals", maxsteps=8, documented_panics=False):
    r = ctx.rng(label)
    out = []
    # many keys (a cap on the number of qualifiers, a small-size optimisation with a different code path beyond N): 100
    # distinct keys inserted in three orders, then lookups, removals from the middle, and the comparison with a fresh copy
    for order in (lambda ks: ks, lambda ks: list(reversed(ks)), lambda ks: ks[1::2] + ks[0::2]):
        ks = order(["k%03d" % i for i in range(100)])
        steps = ["ins:%s:%s" % (hx(k_), hx(k_[1:])) for k_ in ks] + ["len", "get:" + hx("K050"), "rm:" + hx("k049"), "rm:" + hx("k000"), "rm:" + hx("k099"), "len",
                                                                   "ent:%s:oi:%s" % (hx("k050x"), hx("v")), "eqf", "retlt:" + hx("k020"), "len", "iter", "eqf"]
        out.append(case("quals " + ";".join(steps), "quals-many"))
    # the words of the library's current source as keys and as values, beside ordinary ones
    import srcdict
    for t in srcdict.source_tokens():
        for k_, v_ in ((t, "v"), ("k", t), (t, t), (t.upper(), "x" + t), ("zz-" + t, t + "!")):
            steps = ["ins:%s:%s" % (hx("a"), hx("1")), "ins:%s:%s" % (hx(k_), hx(v_)), "ins:%s:%s" % (hx("zzzz"), hx("2")), "get:" + hx(k_), "get:" + hx(k_.lower()), "has:" + hx(k_.upper()),
                     "iter", "eqf", "ent:%s:oi:%s" % (hx(k_), hx("w")), "len", "rm:" + hx(k_), "iter", "tfi:%s:%s:%s:%s" % (hx(k_), hx(v_), hx("b"), hx(t)), "iter", "eqf"]
            out.append(case("quals " + ";".join(steps), "quals-many"))
    for _ in range(n):
        steps = [rand_quals_step(r) for _ in range(1 + r.below(maxsteps))]
        if r.chance(1, 4):
            # Index / IndexMut on a key that is certainly present (any letter case): the success paths
            kk = r.pick(["a_b", "aab", "k", "key", "type", "zz", "repository_url", "checksum"])
            at = r.below(len(steps) + 1)
            steps[at:at] = ["ins:%s:%s" % (hx(flipcase(r, kk)), hx("1")), "idxmut:%s:%s" % (hx(flipcase(r, kk)), hx(r.pick(["2", "", "x y"]))),
                            "idx:%s" % hx(flipcase(r, kk))]
        if r.chance(1, 3):
            steps[r.below(len(steps) + 1):0] = ["snap"]      # a clone kept alive while the original goes on changing
        if r.chance(1, 8):
            # every key kept, every value edited, while a clone is alive
            steps += ["ins:%s:%s" % (hx("a"), hx("X")), "ins:%s:%s" % (hx("key"), hx("Y")), "retlt:" + hx("l"), "snap", "retmut:" + hx("z"), "iter", "imut:" + hx("w"), "iter"]
        if r.chance(1, 2):
            steps.append("eqf")     # same content built from scratch: equal, same hash, same order — whatever the history
        if documented_panics and r.chance(1, 10):
            steps.append("idx:" + hx(r.pick(KEY_UNIVERSE)))
        out.append(case("quals " + ";".join(steps), "quals"))
    return out


Q_EXH_KEYS = ["a", "A", "b", "B", "ab", "", "a b", "a_", "AA"]
Q_EXH_VALS = ["", "1"]


def q_exh_ops():
    ops = []
    for k in Q_EXH_KEYS:
        hk = hx(k)
        for v in Q_EXH_VALS:
            ops.append("ins:%s:%s" % (hk, hx(v)))
        ops += ["rm:" + hk, "get:" + hk, "ent:%s:oi:%s" % (hk, hx("2")), "ent:%s:orme" % hk, "ent:%s:am:%s" % (hk, hx("3")),
                "mut:%s:%s" % (hk, hx("4"))]
    ops += ["retne", "riter", "clear", "ends"]
    return ops


def st_quals_exhaustive(ctx, depth):
    ops = q_exh_ops()
    out = []
    for k in range(1, depth + 1):
        for tup in itertools.product(ops, repeat=k):
            out.append(case("quals " + ";".join(tup) + ";iter;len;eqf", "quals-exhaustive"))
    return out


def st_bsearch(ctx, n, label="bsearch"):
    """std's binary_search_by itself (the model of the ALGORITHM, PurlModel/BinSearch.lean, against the linked std):
    slices of every length 0..40 (and some long ones), sorted / sorted with repeats / unsorted, probes present, absent,
    below and above everything; keys over a small alphabet so that prefixes, '_' vs letters and non-ASCII meet"""
    import itertools
    r = ctx.rng(label)
    out = []
    words = ["", "a", "a_", "a_b", "aa", "aab", "ab", "b", "checksum", "k", "z", "z9", "é", "\U0001f600", "A", "_", "-", "a-", "a."]

    def req(probe, keys):
        return case("bsearch %s %s" % (hx(probe), ",".join(hx(k) for k in keys) if keys else "~"), label)

    # exhaustive: every sorted slice over 5 keys of length <= 5 (with repeats), every probe
    small = ["a", "b", "c", "d", "e"]
    for L in range(0, 6):
        for tup in itertools.combinations_with_replacement(small, L):
            for probe in ["", "a", "b", "bb", "c", "e", "f"]:
                out.append(req(probe, list(tup)))
    # every permutation of 4 distinct keys (unsorted slices: the algorithm is deterministic, the model must follow it)
    for tup in itertools.permutations(["a", "b", "c", "d"]):
        for probe in ["a", "b", "c", "d", "bb"]:
            out.append(req(probe, list(tup)))
    for _ in range(n):
        L = r.pick([0, 1, 2, 3, 4, 5, 6, 7, 8, 9, 15, 16, 17, 31, 32, 33, 40]) if r.chance(3, 4) else r.below(200)
        mode = r.below(4)
        if mode == 0:      # strictly ascending numbered keys
            keys = sorted(set("k%03d" % r.below(3 * L + 1) for _ in range(L)))
        elif mode == 1:    # ascending with repeats
            keys = sorted(r.pick(words) for _ in range(L))
        elif mode == 2:    # arbitrary order
            keys = [r.pick(words) for _ in range(L)]
        else:              # distinct words, ascending (scalar-value order = UTF-8 byte order)
            keys = sorted(set(r.pick(words) for _ in range(L)))
        if keys and r.chance(2, 3):
            probe = r.pick(keys)
        else:
            probe = r.pick(words + ["k%03d" % r.below(3 * L + 1), "zzzz", ""])
        out.append(req(probe, keys))
    return out


def st_key_families():
    """qualifier keys with a LONG common prefix (7 ... 25 bytes: around one, two and three machine words) — one a prefix
    of the other, or differing only behind it — inserted, looked up, overwritten and removed in both orders and in
    another letter case (a comparison that looks at a fixed-size chunk first must still tell them apart)"""
    out = []
    for L in (7, 8, 9, 15, 16, 17, 23, 24, 25):
        P = ("platform_version_of_the_runtime_x")[:L]
        fam = [P, P + "a", P + "_version", P + "12345678", P + "123456789", P + "b"]
        for x in fam:
            for y in fam:
                if x == y:
                    continue
                out.append(case("quals ins:%s:%s;ins:%s:%s;get:%s;get:%s;has:%s;ent:%s:get;iter;rm:%s;get:%s;get:%s;len" % (
                    hx(x), hx("1"), hx(y), hx("2"), hx(x), hx(y), hx(x.upper()), hx(y.upper()), hx(x), hx(x), hx(y)), "key-families"))
        out.append(case("quals tfi:" + ":".join("%s:%s" % (hx(k), hx("v")) for k in fam) + ";iter;it:i:nbl", "key-families"))
        out.append(case("quals tfi:" + ":".join("%s:%s" % (hx(k), hx("v")) for k in reversed(fam)) + ";iter;riter", "key-families"))
    return out


def st_key_families_parse(shapes):
    out = []
    for L in (7, 8, 9, 15, 16, 17, 23, 24, 25):
        P = ("platform_version_of_the_runtime_x")[:L]
        fam = [P, P + "a", P + "_version", P + "12345678", P + "b"]
        for x in fam:
            for y in fam:
                if x != y:
                    for sh in shapes:
                        s_ = "pkg:%s/n?%s=1&%s=2&checksum=sha1:00" % ("cargo" if sh == "P" else "t", x, y.upper())
                        out.append(case("parse %s %s" % (sh, hx(s_)), "key-families", s=s_, shape=sh))
    return out


def st_iter_random(ctx, n, label="quals-it"):
    """random collections (inserts and removals in any letter case), then random call sequences on iterators
    (a stream of its own: the labelled `quals` stream stays as the full replays validated it)"""
    r = ctx.rng(label)
    out = []
    calls = ["n", "b", "n", "b", "l", "t0", "t1", "t2", "t3", "t7", "u0", "u1", "u2", "u3", "u7", "t18446744073709551615", "u18446744073709551615"]
    for _ in range(n):
        steps = []
        for _ in range(r.below(9)):
            k = r.pick(["a", "B", "a_b", "aab", "k1", "K2", "z", "checksum", "Z9", "m-n", "m.n"])
            steps.append("ins:%s:%s" % (hx(k), hx(r.pick(["1", "", "x y", "é"]))) if r.chance(4, 5) else "rm:%s" % hx(k))
            if r.chance(1, 3):
                steps.append("it:%s:%s" % (r.pick(["i", "m"]), "".join(r.pick(calls) for _ in range(1 + r.below(6)))))
        steps.append("it:%s:%s" % (r.pick(["i", "m"]), "".join(r.pick(calls) for _ in range(1 + r.below(8)))))
        out.append(case("quals " + ";".join(steps), label))
    return out


def st_iter_scripts():
    """every script of up to three calls (next, next_back, nth / nth_back with small, exact and overshooting
    arguments, len) on one iterator of a collection of 0..5 pairs, for iter() and iter_mut(): a partly consumed
    iterator must go on like a slice iterator over the same pairs"""
    import itertools
    out = []
    calls = ["n", "b", "t0", "t1", "t2", "t4", "u0", "u1", "u2", "u4", "l"]
    for n in range(0, 6):
        ins = ";".join("ins:%s:%s" % (hx("k%d" % i), hx(str(i))) for i in range(n))
        for m in ("i", "m"):
            for a_, b_ in itertools.product(calls, repeat=2):
                steps = ["it:%s:%s" % (m, a_ + b_ + c_ + "l") for c_ in calls]
                out.append(case("quals " + ";".join(([ins] if ins else []) + steps), "iter-scripts"))
    return out


def st_qcmp(ctx, n, label="qcmp"):
    r = ctx.rng(label)
    out = []
    for _ in range(n):
        n1 = 1 + r.below(4)
        items = []
        seen = set()
        for _ in range(n1):
            k = r.pick(["a", "b", "ab", "k", "checksum", "z9"])
            if k in seen:
                continue
            seen.add(k)
            items.append((k, r.pick(["1", "2", "v"])))
        s1 = ";".join("ins:%s:%s" % (hx(flipcase(r, k)), hx(v)) for k, v in r.shuffle(items))
        if r.chance(1, 2):
            items2 = list(items)
        else:
            items2 = list(items)
            i = r.below(len(items2))
            m = r.below(4)
            if m == 3:
                k0 = items2[i][0]
                nk = k0 + "z"
                if nk in [x for x, _ in items2]:
                    nk = k0 + "zz"
                items2[i] = (nk, items2[i][1])
            elif m == 0:
                items2[i] = (items2[i][0], items2[i][1] + "x")
            elif m == 1:
                del items2[i]
            else:
                items2.append(("zz", "1"))
        s2 = ";".join("ins:%s:%s" % (hx(flipcase(r, k)), hx(v)) for k, v in r.shuffle(items2)) or "-"
        out.append(case("qcmp %s %s" % (s1, s2), "qcmp", same=(sorted(items) == sorted(items2))))
    return out


# ---------------------------------------------------------------- checksum scripts

ALG_UNIVERSE = ["sha1", "SHA1", "Sha1", "md5", "MD5", "a", "A", "b", "a:b", "é", "É", "ǅ", "ǆ", "", "x y", "sha256",
                "a:b c", "x:y&z=1", "s:h+1", "u:\u00fc", " md5", "md5 ", "\tsha1", "sha", "sha2", "sha2-256"]
# algorithms containing ',' are outside C12's quantifier (their text cannot parse back) but inside C06's (no panic)
ALG_COMMA = ["sha1,md5", "a,b", ",", "x,", ",:"]
_ALG_EXTRA = []


def rand_hexbytes(r):
    n = r.below(4)
    return "".join(r.pick(HEXD) for _ in range(2 * n)) or "-"


def rand_cksum_step(r, asep=":", mutate_only=False):
    a = lambda: hx(r.pick(ALG_UNIVERSE + _ALG_EXTRA))
    J = asep.join
    c = r.below(14 if not mutate_only else 7)
    if c < 3:
        return J(["ins", a(), rand_hexbytes(r)])
    if c < 5:
        return J(["raw", a(), hx(r.pick(["00", "AB", "ab", "zz", "0", "", "A1b2", "é"]))])
    if c == 5:
        return J(["rm", a()])
    if c == 6:
        return J(["of", hx(r.pick(["sha1:AB,md5:00", "a:00", "A:11,a:00", "sha1:zz", "a:0", "x", "b:,a:", "", ":", "a:b:00", "ǅ:00,ǆ:11"]))])
    if c == 7:
        return J(["get", a()])
    if c == 8:
        return J(["getraw", a()])
    if c == 9:
        return "algs"
    if c == 10:
        return "iter"
    if c == 11:
        return "text"
    return "rt"


def rand_cksum_script(r, sep=";", asep=":", mutate_only=False, lo=0, hi=5):
    n = lo + r.below(hi - lo + 1)
    steps = [rand_cksum_step(r, asep, mutate_only) for _ in range(n)]
    return sep.join(steps) if steps else "-"


def st_cksum(ctx, n, label="cksum", commas=False):
    r = ctx.rng(label)
    out = []
    _ALG_EXTRA[:] = ALG_COMMA if commas else []
    for _ in range(n):
        s = rand_cksum_script(r, lo=1, hi=7)
        out.append(case("cksum " + s + ";text;iter", "cksum"))
    _ALG_EXTRA[:] = []
    return out


def st_cksum_orders(ctx, n, label="cksum-orders"):
    """one entry set inserted in several orders / letter cases: the texts must coincide"""
    r = ctx.rng(label)
    out = []
    for g in range(n):
        k = 1 + r.below(5)
        algs = []
        for _ in range(k):
            a = r.pick(["sha1", "md5", "a", "b", "sha256", "a:b", "é", "x-1", "z", "blake2"])
            if a not in algs:
                algs.append(a)
        entries = [(a, rand_hexbytes(r)) for a in algs]
        for _ in range(3):
            es = r.shuffle(entries)
            steps = []
            for a, hb_ in es:
                if r.chance(1, 3):
                    steps.append("ins:%s:%s" % (hx(flipcase(r, a)), rand_hexbytes(r)))   # overwritten below
                steps.append("ins:%s:%s" % (hx(flipcase(r, a)), hb_))
            out.append(case("cksum " + ";".join(steps) + ";text;iter;rt", "cksum-orders", group="o%d" % g,
                            entries=[(a, "" if b == "-" else b) for a, b in entries]))
    return out


# ---------------------------------------------------------------- package types / combined names

def st_ptype_exhaustive():
    out = []
    for name in KNOWN_TYPES:
        for mask in range(1 << len(name)):
            s = "".join(c.upper() if (mask >> i) & 1 else c for i, c in enumerate(name))
            out.append(case("ptype " + hx(s), "ptype-case", s=s, expect=name))
    return out


LOOKALIKES = ["ſ", "\u212a", "K", "ı", "İ", "ｍ", "Ａ", "ᵃ", "ß", "g", "G", "e", "m", "n", "p", "y", "i", "u", "t", "c", "a", "r", "o", "l", "v"]
SPEC_TYPES = ["alpm", "apk", "bitbucket", "bitnami", "cocoapods", "composer", "conan", "conda", "cpan", "cran", "deb", "docker",
              "generic", "github", "hackage", "hex", "huggingface", "luarocks", "mlflow", "oci", "pub", "qpkg", "rpm", "swid",
              "swift", "maven2", "go", "pip", "rubygems", "crates", "node"]


def st_ptype_near(ctx, n, label="ptype"):
    r = ctx.rng(label)
    out = []
    for name in KNOWN_TYPES:
        for i in range(len(name) + 1):
            for c in LOOKALIKES + [" ", "\x00", "-", "1"]:
                out.append(case("ptype " + hx(name[:i] + c + name[i:]), "ptype-edit"))
                if i < len(name):
                    out.append(case("ptype " + hx(name[:i] + c + name[i + 1:]), "ptype-edit"))
            if i < len(name):
                out.append(case("ptype " + hx(name[:i] + name[i + 1:]), "ptype-edit"))
    # scalars congruent to the right letter modulo 2^7 / 2^8 / 2^16 (what a narrowing cast or a byte-wise comparison
    # would confuse with it); thorough tier: every scalar congruent modulo 256
    for name in KNOWN_TYPES:
        for i, c in enumerate(name):
            ks = range(1, 0x1100) if ctx.tier == "thorough" else [1, 2, 3, 0x1F3, 0x100, 0x10FF]
            subs = set()
            for k in ks:
                for base in (ord(c), ord(c.upper())):
                    subs.add(base + 0x100 * k)
            for base in (ord(c), ord(c.upper())):
                subs.update([base + 0x80, base + 0x10000, base + 0xFF00])
            for cp in sorted(subs):
                if cp < 0x110000 and not (0xD800 <= cp < 0xE000):
                    out.append(case("ptype " + hx(name[:i] + chr(cp) + name[i + 1:]), "ptype-congruent"))
    for t in SPEC_TYPES + [""]:
        out.append(case("ptype " + hx(t), "ptype-spec"))
        out.append(case("ptype " + hx(t.upper()), "ptype-spec"))
    for _ in range(n):
        k = 1 + r.below(6)
        s = "".join(r.pick(LOOKALIKES) for _ in range(k))
        out.append(case("ptype " + hx(s), "ptype-random"))
    return out


def st_ptype_escaped():
    """PURL strings whose type spells a known name with one letter percent-encoded (either hex case, either letter
    case): an encoded type is never valid, whatever it would decode to"""
    out = []
    for name in KNOWN_TYPES:
        for i, c in enumerate(name):
            for ch in (c, c.upper()):
                for esc in ("%%%02X" % ord(ch), "%%%02x" % ord(ch)):
                    s = "pkg:" + name[:i] + esc + name[i + 1:] + "/ns/name@1.0"
                    out.append(case("parse P " + hx(s), "ptype-escaped", s=s, shape="P"))
                    out.append(case("parse S " + hx(s), "ptype-escaped", s=s, shape="S"))
    return out


def st_ptype_short(maxlen):
    letters = ["g", "e", "m", "n", "p", "G", "ｍ", "\u212a", "ſ"]
    out = []
    for k in range(0, maxlen + 1):
        for tup in itertools.product(letters, repeat=k):
            out.append(case("ptype " + hx("".join(tup)), "ptype-short"))
    return out


COORD_WORDS = ["jar", "war", "ear", "pom", "aar", "bundle", "maven-plugin", "sources", "javadoc", "tests", "zip", "tar.gz", "tgz", "whl", "gem", "nupkg", "crate",
               "git", "v2", "v10", "latest", "1.0", "1.0.0", "RELEASE", "SNAPSHOT", "JAR", "Jar", "jars", "test-jar", "ejb", "rar", "module", "java-source", "exe", "dll", "so", "main", "master", "HEAD", ""]


def st_comb(ctx, n, label="comb"):
    r = ctx.rng(label)
    out = []
    alpha = ["a", "b", "/", ":", "@", ".", "é", "A", "-", "_"]
    for ident in IDENTS:
        for k in range(0, 4):
            for tup in itertools.product(["a", "/", ":", "@"], repeat=k):
                out.append(case("comb %s %s" % (ident, hx("".join(tup))), "comb-exhaustive", ident=ident, s="".join(tup)))
    realistic = ["github.com/go-chi/chi/v5", "x/v2", "v2", "a/v10", "a/v1", "a/v02", "a/v2x", "@angular/cli", "@types/node/extra", "org.apache:commons",
                 ":artifact", "g:g:a", "a/", "/a", "a:", "golang.org/x/text", "k8s.io/api/core/v1", "gopkg.in/yaml.v3",
                 "a\uff0fb", "g\uff1aa", "a\u2215b", "a\u2044b", "a\\b", "a\\b/c", "g\ua789a", "a/b\uff0fc", "g:a\uff1ab", "a%2Fb", "g%3Aa", "a//b", "g::a", " a/b ", "a /b"] + ECO_NAMES \
        + ["ns/" + x for x in ECO_NAMES[:12]] + ["g:" + x for x in ECO_NAMES[:12]]
    for ident in IDENTS:
        for s in realistic:
            out.append(case("comb %s %s" % (ident, hx(s)), "comb-realistic", ident=ident, s=s))
    for _ in range(n):
        ident = r.pick(IDENTS)
        s = "".join(r.pick(alpha) for _ in range(r.below(10)))
        if r.chance(1, 4):
            s = rand_text(r, 0, 8)
        out.append(case("comb %s %s" % (ident, hx(s)), "comb-random", ident=ident, s=s))
    # words another tool's coordinate syntax gives a meaning to (packagings, classifiers, extensions, version words),
    # behind every separator, in names of one, two and three parts: part of the name, nothing else
    for ident in IDENTS:
        for sep in (":", "/", "@", ".", "-"):
            for w_ in COORD_WORDS:
                for pre in ("tool", "org.acme:tool", "org.acme/tool", "@scope/tool", "g:a:b"):
                    s = pre + sep + w_
                    out.append(case("comb %s %s" % (ident, hx(s)), "comb-words", ident=ident, s=s))
    import srcdict
    for ident in IDENTS:
        for t in srcdict.source_tokens():
            for s in (t, "g:" + t, "a/" + t, t + "/a", "g:a:" + t, t + ":a", "@s/" + t, "a:b/" + t):
                out.append(case("comb %s %s" % (ident, hx(s)), "comb-words", ident=ident, s=s))
    return out


def st_combp(ctx, n, label="combp"):
    r = ctx.rng(label)
    out = []
    for _ in range(n):
        t = rand_tuple(r, ty=flipcase(r, r.pick(KNOWN_TYPES)), plain=r.chance(1, 3))
        s, _ = spell(r, t)
        out.append(case("combp " + hx(s), "combp", s=s))
    for ty_ in KNOWN_TYPES:
        for sep in (":", "%3A", "@", "%40", ".", "-"):
            for w_ in COORD_WORDS:
                for tpl in ("pkg:%s/org.acme/tool%s%s@1.0", "pkg:%s/org.acme%s%s/tool", "pkg:%s/ns/a%sb%s%s"):
                    s = tpl % ((ty_, sep, w_) if tpl.count("%s") == 3 else (ty_, sep, sep, w_))
                    out.append(case("combp " + hx(s), "combp", s=s))
    return out


# ---------------------------------------------------------------- shape family

def st_shape(ctx, n, label="shape"):
    r = ctx.rng(label)
    out = []
    strings = ["pkg:Foo/n", "pkg:foo/a/n@1?k=v&checksum=SHA1:AB#s", "pkg:foo/n?zz=1", "pkg:!/n", "pkg:foo", "pkg:foo/%80",
               "pkg:foo/n?checksum=sha1:zz", "pkg:foo/n?k=", "nope", "pkg:foo/n?hookq=1"]
    for bits in range(0, 512):
        s = strings[bits % len(strings)]
        out.append(case("shape %d parse %s" % (bits, hx(s)), "shape-parse", bits=bits, s=s))
        out.append(case("shape %d build %s %s %s" % (bits, hx("Foo"), hx("n"), "-"), "shape-build", bits=bits))
        out.append(case("shape %d new %s %s" % (bits, hx(["Foo", "foo", "f!", ""][bits % 4]), hx(["n", "", "a/b"][bits % 3])), "shape-build", bits=bits))
    for _ in range(n):
        bits = r.below(512)
        if r.chance(1, 2):
            t = rand_tuple(r, plain=r.chance(1, 2))
            s, _ = spell(r, t)
            if r.chance(1, 4):
                s = mutate(r, s)
            out.append(case("shape %d parse %s" % (bits, hx(s)), "shape-parse", bits=bits, s=s))
        else:
            c = rand_builder_case(r, "S", 4)
            req = c["req"].split(" ", 2)[2]
            t3 = req.split(" ")
            t3[2] = ";".join(x for x in t3[2].split(";") if x != "rb") or "-"    # `rb` is for the built-in shapes only
            out.append(case("shape %d build %s" % (bits, " ".join(t3)), "shape-build", bits=bits))
    return out


def st_fmtlim(ctx, n, shapes, label="fmtlim"):
    """format into a sink that fails beyond a small capacity, then format normally (state left behind by a failed
    write must not show); interleaved with ordinary parse requests in the same process"""
    r = ctx.rng(label)
    base = [c for c in st_classes(ctx, shapes, label + "-cls")]
    out = []
    step = max(1, len(base) // max(1, n))
    for c in base[::step]:
        cap = r.pick([0, 1, 4, 5, 7, 8, 12, 16, 24, 32, 48, 64, 200, 5000])
        t = c["req"].split(" ")
        out.append(case("fmtlim %s %d %s" % (t[1], cap, t[2]), "fmtlim", s=c["s"], shape=c["shape"]))
        out.append(case(c["req"], "fmtlim-after", s=c["s"], shape=c["shape"]))
    return out


# ---------------------------------------------------------------- checksum texts

def cksum_texts(ctx):
    """every checksum text of up to three entries over the algorithms {a, b, c} in any order and with repetitions
    (canonical-looking lower-case, and with one algorithm capitalised), plus hex-digit faults: each position of a
    short hex string replaced by a character that some number parser might accept"""
    out = []
    algs = ["a", "b", "c"]
    for k in range(1, 4):
        for seq in itertools.product(algs, repeat=k):
            ent = ["%s:%02x" % (a, 17 * i) for i, a in enumerate(seq)]
            out.append(",".join(ent))
            if k > 1:
                out.append(",".join(e.upper() if i == k - 1 else e for i, e in enumerate(ent)))
    for base in ["aabb", "AABB", "aAbB", "00ff", "0F"]:
        for pos in range(len(base)):
            for ch in "+- xXgG_.%/:":
                out.append("sha1:" + base[:pos] + ch + base[pos + 1:])
                out.append("md5:00,sha1:" + base[:pos] + ch + base[pos + 1:])
    out += ["a:b c:00", "x:y&z=1:00ff", "s:h+1:00", "u:\u00fc#:00", "sha1:aa, md5:bb", " md5:bb", "md5:aa, md5:bb", "md5 :00", "\tsha1:00,sha1:11",
            "sha:aa,sha1:bb", "sha2-256:00ff,sha2:11", "md5:01,md:ff,sha256:00"]
    # one algorithm is a prefix of another up to a ':' — the digest of the first then lines up with the rest of the second's
    # name, in either letter case (anything that compares whole entries instead of algorithms goes wrong here)
    for P_ in ("a", "blake2"):
        for S_ in ("b", "d", "0", "g"):
            for X_ in ("C0", "c0", "F0FF", "0F", "Ab", "E1"):
                out.append("%s:%s,%s:%s:00" % (P_, X_, P_, S_))
                out.append("%s:%s:00,%s:%s" % (P_, S_, P_, X_))
    # a repeated algorithm (in either letter case) after three or four distinct ones in every order: refused, wherever
    # the first occurrence ended up
    for perm in itertools.permutations(["a", "b", "c"]):
        for rep in perm:
            for rp in (rep, rep.upper()):
                out.append(",".join("%s:%02x" % (x, 17 * i) for i, x in enumerate(list(perm) + [rp])))
    for perm in itertools.permutations(["sha256", "sha512", "md5", "b"]):
        for rep in (perm[0], perm[1].upper()):
            out.append(",".join("%s:%02x" % (x, 17 * i) for i, x in enumerate(list(perm) + [rep])))
    out += [",".join("hash%02d:%02xab" % (i, i) for i in reversed(range(n_))) for n_ in (8, 16, 17, 32, 33, 40, 64, 65, 100)]
    # digests in other encodings (SRI / base64, base64url, base32, with the algorithm glued on): not hex, refused
    out += ["sha256:47DEQpj8HBSa+/TImW+5JCeuQeRkm5NMpJWZG3hSuFU=", "sha1:2jmj7l5rSw0yVb/vlWAYkK/YBwk=", "SHA256:47DEQpj8HBSa+/TImW+5JCeuQeRkm5NMpJWZG3hSuFU=",
            "sha512:z4PhNX7vuL3xVChQ1m2AB9Yg5AULVxXcg/SpIdNs6c5H0NE8XYXysP+DGNKHfuwvY7kxvUdBeoGlODJ6+SfaPg==", "sha256:47DEQpj8HBSa-_TImW-5JCeuQeRkm5NMpJWZG3hSuFU",
            "md5:1B2M2Y8AsgTpgAmY7PhCfg==", "sha256-47DEQpj8HBSa+/TImW+5JCeuQeRkm5NMpJWZG3hSuFU=", "sha1:3I42H3S6NNFQ2MSVX7XZKYAYSCX5QBYJ", "sha256:00,sha1:2jmj7l5rSw0yVb/vlWAYkK/YBwk="]
    # algorithm names that only differ in how their numbers are written (a "natural" order would tie or reorder them)
    out += ["sha01-1:aa,sha1-01:bb", "sha1-01:bb,sha01-1:aa", "a1:00,a01:11,a001:22", "sha2:00,sha10:11", "sha10:11,sha2:00", "v1.10:00,v1.9:11,v1.09:22"] * 4
    # families of algorithm names with a LONG common prefix (one machine word, two, three: anything that compares or sorts
    # by a fixed-size chunk of the name first), in every order, alone and next to names that sort before / after the
    # family; each text several times (the typed value is a hash map: its iteration order changes from value to value)
    fams = [["sha512-224", "sha512-256"], ["blake2b-256", "blake2b-384", "blake2b-512"], ["ripemd-128", "ripemd-160"],
            ["sha3-256-tree", "sha3-256-flat"]]
    for L_ in (7, 8, 9, 15, 16, 17, 24, 32):
        P_ = ("abcdefghijklmnopqrstuvwxyz0123456789" * 2)[:L_]
        fams.append([P_ + "a", P_ + "b"])
        fams.append([P_, P_ + "0", P_ + "-1"])
    for fam in fams:
        for perm in itertools.permutations(fam):
            ent = ["%s:%02x" % (a, 17 * i + 1) for i, a in enumerate(perm)]
            for extra in ([], ["0a:aa"], ["zz:bb"], ["0a:aa", "zz:bb"]):
                for pos in range(len(ent) + 1):
                    t_ = ent[:pos] + extra + ent[pos:]
                    out += [",".join(t_)] * (3 if len(fam) == 2 else 1)
                    if not extra:
                        break
    # algorithm names in other scripts, capitalised or all upper-case, with digests that are already canonical: alone (the
    # only thing to normalise is a non-ASCII letter) and in pairs whose order differs before and after lower-casing
    out += ["\u0413\u041e\u0421\u0422:0a1b2c3d", "\u0421\u0442\u0440\u0438\u0431\u043e\u0433:00ff", "\u03a9:00", "\u00c4:00ff", "\u01c5:00", "\u0130:00", "\u00c9a:ab", "a\u00c9:ab",
            "\u03a9:00,\u03b2:11", "\u03b2:11,\u03a9:00", "\u0421\u0442\u0440\u0438\u0431\u043e\u0433:00ff,\u0433\u043e\u0441\u0442:abcd", "\u0433\u043e\u0441\u0442:abcd,\u0421\u0442\u0440\u0438\u0431\u043e\u0433:00ff",
            "\u00c4:00,\u00e0:11,z:22", "z:22,\u00e0:11,\u00c4:00", "\u039f\u0394\u039f\u03a3:00", "x\u03a3:00,x\u03c3:11"] * 2
    # real algorithm names with digests of their real sizes, hex in upper case (what other tools print): every set of three
    real = [("md5", 32), ("sha1", 40), ("sha256", 64), ("sha512", 128), ("SHA-1", 40), ("SHA-256", 64), ("SHA3-256", 64), ("sha512-256", 64), ("blake2b-256", 64), ("sha384", 96)]
    for trio in itertools.combinations(real, 3):
        out.append(",".join("%s:%s" % (a, ("A1B2C3D4E5F60718" * 8)[:n]) for a, n in trio))
    # the second and third algorithm name at every offset of the text up to 600 (first digest of every even length, two
    # parities of the first name), upper- and lower-case hex: whatever is staged in fixed-size blocks meets its border
    for k in range(0, 300):
        out.append("a:%s,bb:CD,ccc:EF" % ("AB" * k))
        out.append("aa:%s,bb:cd,ccc:EF" % ("ab" * k))
    import srcdict
    for t in srcdict.source_tokens():
        out += [t + ":00ff", "sha1:" + t, "sha1:00," + t + ":ab", t + "=00ff", "sha1:ab" + t, t + "sha1:ab"]
    out += ["sha512:" + "ab" * n_ for n_ in (20, 32, 64, 65, 128, 129, 256)] + ["sha1:" + "AB" * 64 + ",md5:" + "0f" * 16]
    out += ["sha1:+aFF", "sha1:0x1F", "sha1:0x", "sha1:0X1f", "sha256:0xdeadbeef", "md5:00ff,sha1:0XAB", "sha1:1e", "sha1:١٢", "sha1:ａｂ", "a:00,b", "a:00,,b:11", "a::00", ":00", "a:", ","]
    if ctx.tier == "thorough":
        for seq in itertools.product(algs + ["A"], repeat=4):
            out.append(",".join("%s:%02x" % (a, 17 * i) for i, a in enumerate(seq)))
    return out


def st_cksum_texts(ctx, routes=("parse", "build", "api", "shape")):
    out = []
    for i, t in enumerate(cksum_texts(ctx)):
        enc = t.replace("%", "%25").replace("+", "%2B").replace(" ", "%20")
        if "parse" in routes:
            s1 = "pkg:t/n?checksum=" + enc
            out.append(case("parse S " + hx(s1), "cksum-text", s=s1, shape="S"))
            if i % 3 == 0:
                s2 = "pkg:cargo/n?Checksum=" + enc
                out.append(case("parse P " + hx(s2), "cksum-text", s=s2, shape="P"))
        if "build" in routes:
            out.append(case("build S %s %s q:%s:%s" % (hx("t"), hx("n"), hx("checksum"), hx(t)), "builder", shape="S"))
        if "api" in routes:
            out.append(case("cksum of:%s;text;iter;rt" % hx(t), "cksum"))
        if "shape" in routes:
            s3 = "pkg:foo/n?checksum=" + enc
            out.append(case("shape %d parse %s" % (0, hx(s3)), "shape-parse", bits=0, s=s3))
    return out


# ---------------------------------------------------------------- comparisons

def st_cmp(ctx, n, shapes, label="cmp"):
    r = ctx.rng(label)
    out = []
    fixed = [("b/%s/%s/q:%s:%s" % (hx("t"), hx("n"), hx("k"), hx("a&l=c")), "b/%s/%s/q:%s:%s;q:%s:%s" % (hx("t"), hx("n"), hx("k"), hx("a"), hx("l"), hx("c"))),
             ("p/" + hx("pkg:t/n"), "p/" + hx("pkg:T//n")), ("p/" + hx("pkg:t/n?arch=x"), "p/" + hx("pkg:t/n?arc=x")),
             ("p/" + hx("pkg:t/n?a=1&b=2"), "p/" + hx("pkg:t/n?a=1&bc=2")), ("p/" + hx("pkg:t/a/b"), "p/" + hx("pkg:t/a%2Fb")),
             ("b/%s/%s/ns:%s" % (hx("t"), hx("b"), hx("a")), "b/%s/%s/-" % (hx("t"), hx("a/b")))]
    for a, b in fixed:
        out.append(case("cmp S %s %s" % (a, b), "cmp-fixed"))
    # values the specification calls defaults: a PURL with and without such a qualifier / version are different PURLs
    for ty_ in KNOWN_TYPES + ["t"]:
        for k_, v_ in SPEC_DEFAULTS.get(ty_, []) + GENERIC_DEFAULTS:
            for sh in shapes:
                if sh == "P" and ty_ == "t":
                    continue
                base = "pkg:%s/ns/rake@13.0.6" % ty_
                with_q = base + "?%s=%s" % (k_, urllib.parse.quote(v_, safe=""))
                out.append(case("cmp %s p/%s p/%s" % (sh, hx(with_q), hx(base)), "cmp-default"))
                out.append(case("cmp %s p/%s p/%s" % (sh, hx(with_q), hx(base + "?%s=other" % k_)), "cmp-default"))
        for v_ in DEFAULT_VERSIONS:
            sh = shapes[len(v_) % len(shapes)]
            if not (sh == "P" and ty_ == "t"):
                out.append(case("cmp %s p/%s p/%s" % (sh, hx("pkg:%s/ns/n@%s" % (ty_, urllib.parse.quote(v_, safe=""))), hx("pkg:%s/ns/n" % ty_)), "cmp-default"))
    # values that a normalisation form, a case folding or a filter of invisible characters would identify: different
    # strings, so different PURLs (in every component)
    twins = [("e\u0301", "\u00e9"), ("\ufb01", "fi"), ("\uff21", "A"), ("\u212a", "K"), ("\u00df", "ss"), ("\u0130", "i\u0307"), ("\u1100\u1161", "\uac00"),
             ("a\u200bb", "ab"), (" a", "a"), ("a\u00adb", "ab"), ("\u212b", "\u00c5"), ("a", "\u0430"), ("A", "a"), ("\u03c3", "\u03c2"), ("a\u0000", "a"),
             # numerically equal, textually different (a "natural" / version-aware order would tie them or reorder them)
             ("2023.01.5", "2023.1.05"), ("1.01", "1.1"), ("007", "7"), ("1.0", "1.00"), ("1.10", "1.9"), ("v01.2", "v1.02"), ("1e3", "1000"), ("0x10", "16")]
    # a literal escape inside a URL-valued qualifier against the character it would denote: different values
    for k_ in ("download_url", "repository_url", "vcs_url", "k"):
        for x_, y_ in (("https://example.com/a%20b.tgz", "https://example.com/a b.tgz"), ("https://e.com/x%C3%A9", "https://e.com/x\u00e9"), ("https://e.com/a%23b", "https://e.com/a#b"),
                       ("https://e.com/%41", "https://e.com/A"), ("https://e.com/%2F", "https://e.com//"), ("HTTPS://E.com/", "https://e.com/")):
            sh = shapes[len(k_) % len(shapes)]
            base_ = "pkg:%s/ns/n@1?%s=" % ("cargo" if sh == "P" else "t", k_)
            out.append(case("cmp %s p/%s p/%s" % (sh, hx(base_ + urllib.parse.quote(x_, safe="")), hx(base_ + urllib.parse.quote(y_, safe=""))), "cmp-twins"))
    for x_, y_ in twins:
        q_ = lambda t: urllib.parse.quote(t, safe="")
        for tpl in ("pkg:t/ns/n%s@1", "pkg:t/ns%s/n@1", "pkg:t/ns/n@1%s", "pkg:t/ns/n@1?k=%s", "pkg:t/ns/n@1#s%s"):
            sh = shapes[len(x_) % len(shapes)]
            if sh == "P":
                tpl = tpl.replace("pkg:t/", "pkg:cargo/")
            out.append(case("cmp %s p/%s p/%s" % (sh, hx(tpl % q_(x_)), hx(tpl % q_(y_))), "cmp-twins"))
    n += len(out)
    while len(out) < n:
        sh = r.pick(shapes)
        ty = flipcase(r, r.pick(KNOWN_TYPES)) if sh == "P" else None
        t = rand_tuple(r, ty=ty, plain=r.chance(1, 3))
        s1, _ = spell(r, t)
        m = r.below(8)
        if m >= 6:
            # exactly one optional component dropped: a different PURL
            opts = [x for x in ("ver", "sub", "ns", "q") if {"ver": t.version is not None, "sub": bool(t.sub), "ns": bool(t.ns) and (ty or "").lower() != "maven",
                                                           "q": bool(t.quals)}[x]]
            if not opts:
                t2 = Tuple(t.ty, list(t.ns), t.name, "1", list(t.quals), list(t.sub), t.cks)
            else:
                o = r.pick(opts)
                q2 = list(t.quals)
                cks2 = t.cks
                if o == "q":
                    k_, v_ = q2.pop(r.below(len(q2)))
                    if v_ is None:
                        cks2 = None
                t2 = Tuple(t.ty, [] if o == "ns" else list(t.ns), t.name, None if o == "ver" else t.version, q2, [] if o == "sub" else list(t.sub), cks2)
            s2, _ = spell(r, t2)
        elif m >= 4 and t.quals and r.chance(1, 2):
            # one more qualifier whose key sorts after all the others (the qualifier lists are in a prefix relation),
            # or the last one dropped
            ks = sorted(k.lower() for k, _ in t.quals)
            extra = ((ks[-1] if ks else "y") + r.pick(["z", "_z", "9"]))[:12]
            if extra == "checksum" or not re.match(r"^[a-z0-9._-]+\Z", extra):
                extra = "zzz9"
            q2 = list(t.quals) + [(extra, r.pick(["1", "v", "x y"]))]
            t2 = Tuple(t.ty, list(t.ns), t.name, t.version, q2, list(t.sub), t.cks)
            s2, _ = spell(r, t2)
        elif m >= 4 and t.quals:
            # one qualifier key shortened / lengthened by a character (prefix-related keys), same values
            i = r.below(len(t.quals))
            k, v = t.quals[i]
            nk = k[:-1] if (len(k) > 1 and r.chance(1, 2)) else k + r.pick("abz_9")
            if nk.lower() in [x.lower() for x, _ in t.quals] or nk.lower() == "checksum" or k.lower() == "checksum":
                nk = k
            q2 = list(t.quals)
            q2[i] = (nk, v)
            t2 = Tuple(t.ty, list(t.ns), t.name, t.version, q2, list(t.sub), t.cks)
            s2, _ = spell(r, t2)
        elif m == 0 or m >= 4:
            s2, _ = spell(r, t)
        elif m == 1:
            t2 = rand_tuple(r, ty=ty, plain=True)
            s2, _ = spell(r, t2)
        elif m == 2:
            # one character changed somewhere
            t2 = Tuple(t.ty, list(t.ns), t.name + r.pick(["a", "/", "&", "=", "@"]), t.version, list(t.quals), list(t.sub), t.cks)
            s2, _ = spell(r, t2)
        else:
            # a separator moved between adjacent fields
            if t.ns:
                t2 = Tuple(t.ty, t.ns[:-1], t.ns[-1] + "/" + t.name, t.version, list(t.quals), list(t.sub), t.cks)
            else:
                t2 = Tuple(t.ty, ["x"], t.name, t.version, list(t.quals), list(t.sub), t.cks)
            s2, _ = spell(r, t2)
        out.append(case("cmp %s p/%s p/%s" % (sh, hx(s1), hx(s2)), "cmp-parse"))
        if r.chance(1, 3) and sh != "P":
            c1 = rand_builder_case(r, "S", 4)["req"].split(" ")
            c2 = rand_builder_case(r, "S", 4)["req"].split(" ")
            if r.chance(1, 2):
                c2 = c1
            out.append(case("cmp S b/%s/%s/%s b/%s/%s/%s" % (c1[2], c1[3], c1[4], c2[2], c2[3], c2[4]), "cmp-build"))
    # a built value against its own canonical string parsed again (and against the same script built twice): equal,
    # same string, same hash — for values given to the builder un-normalised
    cb = [c for c in st_classes_build(ctx, [sh for sh in shapes if sh in ("S", "P")] or ["S"], label + "-cls")]
    step = max(1, len(cb) // max(1, n // 2)) if ctx.tier == "quick" else 1
    for c in cb[::step]:
        t = c["req"].split(" ")
        out.append(case("cmp %s b/%s/%s/%s rb/%s/%s/%s" % (t[1], t[2], t[3], t[4], t[2], t[3], t[4]), "cmp-reparse"))
    return out


# ---------------------------------------------------------------- single-scalar sweeps (thorough)

def st_scalars(positions, step=1, shapes=("S",), limit=0x110000):
    out = []
    # every scalar value: in every position below U+3000, beyond that in one position each, in rotation (memory)
    rotate = step == 1 and limit > 0x3000
    for cp in range(0, limit, step):
        if 0xD800 <= cp <= 0xDFFF:
            continue
        c = chr(cp)
        for pos in (positions if not rotate or cp < 0x3000 else [positions[cp % len(positions)]]):
            for sh in shapes:
                if pos == "name":
                    ty = hx("t") if sh != "P" else "NuGet"
                    out.append(case("build %s %s %s -" % (sh, ty, hx("a" + c + "a")), "scalar-" + pos, cp=cp, pos=pos))
                elif pos == "pypi":
                    out.append(case("build P PyPI %s -" % hx("a" + c + "-"), "scalar-pypi", cp=cp, pos=pos))
                elif pos == "pypi2":
                    out.append(case("build P PyPI %s -" % hx("a" + c), "scalar-pypi", cp=cp, pos=pos))
                else:
                    step_ = {"ns": "ns", "version": "ver", "subpath": "sub"}.get(pos)
                    if pos == "qvalue":
                        script = "q:%s:%s" % (hx("k"), hx("a" + c + "a"))
                    else:
                        script = "%s:%s" % (step_, hx("a" + c + "a"))
                    out.append(case("build %s %s %s %s" % (sh, hx("t"), hx("n"), script), "scalar-" + pos, cp=cp, pos=pos))
    return out


def utf8_boundary_scalars():
    """scalar values at the corners of UTF-8: for every lead byte the smallest and the largest scalar it starts, and for
    three- and four-byte forms the same for the extreme second (and third) bytes"""
    cps = set()
    for lead in range(0xC2, 0xE0):
        base = (lead & 0x1F) << 6
        cps.update([base, base | 0x3F, base | 0x0A])
    for lead in range(0xE0, 0xF0):
        base = (lead & 0x0F) << 12
        for sec in (0x80, 0x9F, 0xA0, 0xBF):
            for thr in (0x80, 0xBF, 0x8A):
                cps.add(base | (sec & 0x3F) << 6 | (thr & 0x3F))
    for lead in range(0xF0, 0xF5):
        base = (lead & 0x07) << 18
        for sec in (0x80, 0x8F, 0x90, 0xBF):
            for thr in (0x80, 0xBF):
                for fo in (0x80, 0xBF):
                    cps.add(base | (sec & 0x3F) << 12 | (thr & 0x3F) << 6 | (fo & 0x3F))
    out = []
    for cp in sorted(cps):
        if cp < 0x80 or cp > 0x10FFFF or 0xD800 <= cp <= 0xDFFF:
            continue
        out.append(cp)
    return out


def st_scalars_at(cps, positions, shapes=("S",)):
    out = []
    for cp in cps:
        c = chr(cp)
        for pos in positions:
            for sh in shapes:
                if pos == "name":
                    ty = hx("t") if sh != "P" else "NuGet"
                    out.append(case("build %s %s %s -" % (sh, ty, hx("a" + c + "b")), "scalar-" + pos, cp=cp, pos=pos))
                else:
                    step_ = {"ns": "ns", "version": "ver", "subpath": "sub"}.get(pos)
                    script = "q:%s:%s" % (hx("k"), hx("a" + c + "b.")) if pos == "qvalue" else "%s:%s" % (step_, hx("a" + c + "b-"))
                    out.append(case("build %s %s %s %s" % (sh, hx("t"), hx("n"), script), "scalar-" + pos, cp=cp, pos=pos))
    return out


def st_scalars_parse(cps, shapes=("S",)):
    """the same scalars through the parser, raw and percent-encoded (upper / lower hex), in every component"""
    out = []
    for cp in cps:
        c = chr(cp)
        for enc in (c, "".join("%%%02X" % b for b in c.encode("utf-8")), "".join("%%%02x" % b for b in c.encode("utf-8"))):
            s_ = "pkg:t/n%ss/a%sb@1%s.0?k=v%sw#d%se/f" % (enc, enc, enc, enc, enc)
            for sh in shapes:
                out.append(case("parse %s %s" % (sh, hx(s_)), "scalar-parse", s=s_, shape=sh, cp=cp))
    return out


def st_ascii_pairs():
    out = []
    for a in range(128):
        for b in range(128):
            v = hx(chr(a) + chr(b))
            out.append(case("build S %s %s ns:%s;ver:%s;sub:%s;q:%s:%s" % (hx("t"), v, v, v, v, hx("k"), v), "ascii-pairs"))
    return out


# ---------------------------------------------------------------- fault injection (C05)

BAD_UTF8 = ["%ED%A0%BD%ED%B8%80", "%ed%a0%80%ed%bf%bf", "%ED%AF%BF%ED%BF%BF", "%C0%80", "%FE%FF", "%FF%FE", "%E9", "%93x%94", "%EF%BF", "%F0%9F%98%80%80", "%80", "%BF", "%C3", "%c3", "%E2%82", "%e2%82", "%F0%9F%98", "%C0%AF", "%c0%af", "%E0%80%AF", "%ED%A0%80", "%ed%a0%80",
            "%F4%90%80%80", "%f4%90%80%80", "%FF", "%fe", "%C3%28", "%E2%28%A1", "%F8%88%80%80%80"]
BAD_TYPE_CHARS = ["!", "$", "_", "~", "*", ":", ",", " ", "é", "%41", "%2B", "&", "=", "\x00", "\u212a", "(", "\\"]
BAD_KEY_ITEMS = ["k!=v", "=v", "%6B=v", "é=v", "a b=v", "k%41=v", "a+b=v", "k:=v", "a/b=v", "=", "K K=1", "\u212a=v", "\u212aey=v", "a\u0130=v"]
BAD_CHECKSUMS = ["sha1", "sha1:abc", "sha1:zz", "sha1:0g", "a:00,b", "a:00,A:11", "sha1:00,SHA1:00", "a:0", "md5:00,sha1:ABCDE", "a:é", "a:00,,b:11",
                 "ǅ:00,ǆ:11"]
FAULT_KINDS = ["scheme", "notype", "badtype", "noname", "qual-noeq", "qual-badkey", "qual-dup", "utf8", "slash", "checksum"]


def inject(r, kind_wanted, idx_wanted, text_fn):
    done = {"n": 0}

    def hook(kind, i, raw, ctx, spelled):
        if kind == kind_wanted and i == idx_wanted:
            done["n"] += 1
            return text_fn(raw, ctx)
        return spelled
    return hook, done


def st_escape_runs(shapes, label="escape-runs"):
    """one uninterrupted run of %XX escapes whose DECODED length sits around the usual chunk sizes (8 ... 256 bytes,
    one below / at / one above), ending — or beginning — with a truncated multi-byte sequence, a lone continuation byte,
    or nothing wrong at all; in every component.  (A decoder that works chunk-wise must carry an incomplete sequence
    over the chunk border and still refuse it at the end of the run.)"""
    out = []
    tails = [("ok", b""), ("lead2", b"\xc3"), ("lead3", b"\xe4"), ("lead3b", b"\xe4\xb8"), ("lead4", b"\xf0\x9f\x98"), ("cont", b"\x80")]
    pct = lambda bs: "".join("%%%02X" % b for b in bs)
    slots = ["pkg:t/%s", "pkg:t/%s/n", "pkg:t/n@%s", "pkg:t/n?k=%s", "pkg:t/n#%s", "pkg:t/a/%s/b/n", "pkg:t/n#a/%s"]
    for D in (7, 8, 9, 15, 16, 17, 31, 32, 33, 63, 64, 65, 127, 128, 129, 191, 192, 193, 255, 256, 257):
        for tname, tail in tails:
            for fill_kind in ("cjk", "ascii"):
                body = D - len(tail)
                if fill_kind == "cjk":
                    k = body // 3
                    filler = "\u4e2d".encode("utf-8") * k + b"a" * (body - 3 * k)
                else:
                    filler = b"a" * body
                for where in ("end", "start"):
                    if where == "start" and tname in ("ok",):
                        continue
                    run = pct(filler + tail) if where == "end" else pct(tail + filler)
                    for j, slot in enumerate(slots):
                        if fill_kind == "ascii" and j not in (0, 3):
                            continue
                        sh = shapes[(D + j) % len(shapes)]
                        s_ = slot % run
                        if sh == "P":
                            s_ = s_.replace("pkg:t/", "pkg:npm/", 1)
                        out.append(case("parse %s %s" % (sh, hx(s_)), label, s=s_, shape=sh))
    return out


def st_dup_keys(shapes):
    """one key twice (same or another letter case) with two non-empty values, for ordinary and well-known keys, next to
    each other and with another key in between: refused"""
    out = []
    vals = {"checksum": ("sha1:aa", "md5:bb"), "arch": ("x86", "arm"), "repository_url": ("https://a.example/", "https://b.example/"), "file_name": ("a.tgz", "b.tgz"),
            "vcs_url": ("git+https://a/b", "git+https://c/d"), "k": ("1", "2")}
    for k_, (v1, v2) in vals.items():
        for k2 in (k_, k_.upper(), k_.capitalize()):
            for mid in ("", "&a=1", "&zz=9"):
                for x_, y_ in ((v1, v2), (v1, v1)):
                    s_ = "pkg:%s/name?%s=%s%s&%s=%s" % ("generic", k_, x_, mid, k2, y_)
                    for sh in shapes:
                        s2_ = s_ if sh != "P" else s_.replace("pkg:generic/", "pkg:npm/")
                        out.append(case("parse %s %s" % (sh, hx(s2_)), "dup-parse", s=s2_, shape=sh))
    # the same among MANY qualifiers (bulk paths taken from some count on): a repeat — same spelling or another letter
    # case — of the first / a middle / the last key, placed at the start, in the middle, at the end, the other keys
    # ascending, descending or interleaved
    for N in (3, 7, 8, 9, 10, 15, 16, 17, 31, 32, 33, 64):
        keys = ["k%02d" % i for i in range(N)]
        orders = {"asc": keys, "desc": keys[::-1], "mix": keys[::2] + keys[1::2][::-1]}
        for oname, ks in orders.items():
            for j in (0, N // 2, N - 1):
                for variant in (keys[j], keys[j].upper()):
                    for pos in (0, len(ks) // 2, len(ks)):
                        items = ["%s=%d" % (k, i + 1) for i, k in enumerate(ks)]
                        items.insert(pos, "%s=dup" % variant)
                        sh = shapes[(N + j + pos) % len(shapes)]
                        s_ = "pkg:%s/name?%s" % ("npm" if sh == "P" else "generic", "&".join(items))
                        out.append(case("parse %s %s" % (sh, hx(s_)), "dup-parse", s=s_, shape=sh))
    return out


def st_scheme_subst(shapes):
    """every single-character substitution / deletion / insertion in the four characters of the scheme (all ASCII
    characters and some others): only a letter-case variant of `pkg:` may be taken for the scheme"""
    out = []
    chars = [chr(i) for i in range(128)] + ["\u00ef", "\uff1a", "\u212a", "\u01c5", "\ua789", "\u2236"]
    # the scheme percent-encoded in part or in whole (a PURL embedded in another URL): not the scheme
    for head in ("pkg%3A", "pkg%3a", "pkg%3A%2F%2F", "%70kg:", "p%6Bg:", "pk%67%3A", "pkg%253A", "pkg&#58;", "pkg\\u003a"):
        for rest in ("generic/a%2Fb/name", "generic/name#lib%2Fsrc", "generic/name#a/%2e%2E/b", "npm/foo@1.0", "generic%2Fname"):
            for sh in shapes:
                s_ = head + rest
                out.append(case("parse %s %s" % (sh, hx(s_)), "scheme", s=s_, shape=sh, expect_err=("Pkg.Parse." if sh == "P" else "") + "UnsupportedUrlScheme"))
    for rest in ("npm/foo@1.0", "t/n"):
        strs = []
        for pos in range(4):
            for ch in chars:
                strs.append("pkg:"[:pos] + ch + "pkg:"[pos + 1:] + rest)
                strs.append("pkg:"[:pos] + ch + "pkg:"[pos:] + rest)
            strs.append("pkg:"[:pos] + "pkg:"[pos + 1:] + rest)
        for s_ in strs:
            if s_[:4].lower() == "pkg:" and s_[:4].isascii():
                continue        # the scheme itself, or a letter-case variant of it (not judged)
            for sh in shapes:
                out.append(case("parse %s %s" % (sh, hx(s_)), "scheme", s=s_, shape=sh, expect_err=("Pkg.Parse." if sh == "P" else "") + "UnsupportedUrlScheme"))
    return out


def fault_case(r, kind, shape):
    """(string, expected error name for the type-agnostic parser) or None"""
    ty = flipcase(r, r.pick(["cargo", "gem", "golang", "npm", "nuget", "pypi"])) if shape == "P" else None
    t = rand_tuple(r, plain=r.chance(1, 2), ty=ty)
    fr = default_freedoms(r)
    if kind == "scheme":
        P, _, _ = spell_parts(r, t, fr)
        P["scheme"] = r.pick(["", "pkg", "http:", "pk:", " pkg:", "xpkg:", "pkg;", "p", "pkg/", ":pkg:", "gkp:"])
        return assemble(P), "UnsupportedUrlScheme", "scheme"
    if kind == "notype":
        P, _, _ = spell_parts(r, t, fr)
        o = "pkg:" + "/" * r.below(3)
        if P["items"] is not None:
            o += "?" + "&".join(P["items"])
        if P["sub"] is not None:
            pre, pieces, post = P["sub"]
            o += "#" + pre + "/".join(pieces) + post
        return o, "MissingRequiredField.PackageType", "notype"
    if kind == "badtype":
        P, _, _ = spell_parts(r, t, fr)
        i = r.below(len(P["type"]) + 1)
        P["type"] = P["type"][:i] + r.pick(BAD_TYPE_CHARS) + P["type"][i:]
        return assemble(P), "InvalidPackageType", "badtype"
    if kind == "noname":
        P, _, _ = spell_parts(r, t, fr)
        m = r.below(3)
        if m == 0:
            # no '/' after the type at all
            o = "pkg:" + P["lead"] + P["type"]
            if P["version"] is not None and "/" not in P["version"]:
                o += "@" + P["version"]
        else:
            # empty name piece
            o = "pkg:" + P["lead"] + P["type"] + "/" + "".join(seg + "/" for seg in P["ns"]) + P["ns_tail"]
            if P["version"] is not None:
                o += "@" + P["version"]
        if P["items"] is not None:
            o += "?" + "&".join(P["items"])
        if P["sub"] is not None:
            pre, pieces, post = P["sub"]
            o += "#" + pre + "/".join(pieces) + post
        return o, "MissingRequiredField.Name", "noname"
    if kind in ("qual-noeq", "qual-badkey", "qual-dup"):
        if not t.quals:
            t.quals.append(("k", "v"))
        P, _, ctx = spell_parts(r, t, fr)
        items = P["items"]
        if kind == "qual-noeq":
            items.insert(r.below(len(items) + 1), r.pick(["k", "key", "a.b", "zz9", "", "a%3Db"]))
        elif kind == "qual-badkey":
            items.insert(r.below(len(items) + 1), r.pick(BAD_KEY_ITEMS))
        else:
            # a second non-empty value for an existing non-empty key, in another letter case (sometimes with an
            # empty-valued repeat of the key in between: `a=x&a=&a=y` still gives `a` two non-empty values)
            cand = [it for it in items if not it.endswith("=")]
            if not cand:
                items.append("dupk=v")
                cand = ["dupk=v"]
            it = r.pick(cand)
            k = it.split("=", 1)[0]
            dup = flipcase(r, k) + "=" + r.pick(["1", "x", "%41"])
            if r.chance(1, 3):
                i0 = items.index(it)
                items.insert(i0 + 1, flipcase(r, k) + "=")
                items.insert(i0 + 2 + r.below(len(items) - i0 - 1), dup)
            else:
                items.insert(r.below(len(items) + 1), dup)
        return assemble(P), "InvalidQualifier", kind
    if kind == "utf8":
        slots = [("name", 0)] + [("ns", i) for i in range(len(t.ns))] + ([("version", 0)] if t.version is not None else []) \
            + [("qval", i) for i, (k, v) in enumerate(t.quals) if v is not None] + [("sub", i) for i in range(len(t.sub))]
        pos, idx = r.pick(slots)
        bad = r.pick(BAD_UTF8)

        def fn(raw, ctx):
            i = r.below(len(raw) + 1)
            posk = pos
            return spell_component(r, posk, raw[:i], ctx, fr["pct"]) + bad + spell_component(r, posk, raw[i:], ctx, fr["pct"])
        hook, done = inject(r, pos, idx, fn)
        P, _, _ = spell_parts(r, t, fr, hook)
        return assemble(P), "InvalidEscape", "utf8-" + pos
    if kind == "slash":
        slots = [("ns", i) for i in range(len(t.ns))] + [("sub", i) for i in range(len(t.sub))]
        if not slots:
            t.ns.append("s")
            slots = [("ns", 0)]
        pos, idx = r.pick(slots)
        bad = r.pick(["%2F", "%2f"])

        def fn(raw, ctx):
            i = r.below(len(raw) + 1)
            return spell_component(r, pos, raw[:i], ctx, fr["pct"]) + bad + spell_component(r, pos, raw[i:], ctx, fr["pct"])
        hook, done = inject(r, pos, idx, fn)
        P, _, _ = spell_parts(r, t, fr, hook)
        return assemble(P), "InvalidEscape", "slash-" + pos
    if kind == "checksum":
        t.quals = [(k, v) for k, v in t.quals if k.lower() != "checksum"]
        t.quals.append((flipcase(r, "checksum"), r.pick(BAD_CHECKSUMS)))
        P, _, _ = spell_parts(r, t, fr)
        return assemble(P), "InvalidQualifier", "checksum"
    raise ValueError(kind)


def st_faults(ctx, n, shapes, label="faults"):
    r = ctx.rng(label)
    out = []
    while len(out) < n:
        for kind in FAULT_KINDS:
            sh = r.pick(shapes)
            s, err, sub = fault_case(r, kind, sh)
            exp = err if sh != "P" else "Pkg.Parse." + err
            out.append(case("parse %s %s" % (sh, hx(s)), "fault-" + sub, s=s, shape=sh, expect_err=exp))
    return out


# ---------------------------------------------------------------- namespace / subpath pieces (C07)

PIECES = ["", ".", "..", "%2e", "%2E", ".%2e", "%2E%2e", "%2F", "%2f", "%5C", "x", "a%2fb", "%2e%2e%2f%2e%2e", "y z", "é", "%C3%A9"]


def st_pieces(ctx, shapes):
    out = []
    small = ["", ".", "..", "%2e", ".%2E", "%2F", "%2f", "%5C", "x", "%2e%2e"]
    k_ns = 3 if ctx.tier == "quick" else 4
    for k in range(1, k_ns + 1):
        for tup in itertools.product(small, repeat=k):
            mid = "/".join(tup)
            for sh in shapes:
                out.append(case("parse %s %s" % (sh, hx("pkg:npm/" + mid + "/n")), "ns-pieces", s="pkg:npm/" + mid + "/n", shape=sh))
                out.append(case("parse %s %s" % (sh, hx("pkg:npm/n#" + mid)), "sub-pieces", s="pkg:npm/n#" + mid, shape=sh))
    return out


def st_pieces_random(ctx, n, shapes, label="pieces"):
    r = ctx.rng(label)
    out = []
    for _ in range(n):
        ns = "/".join(r.pick(PIECES) for _ in range(r.below(7)))
        sub = "/".join(r.pick(PIECES) for _ in range(r.below(7)))
        s = "pkg:" + r.pick(["npm", "Golang", "t"]) + "/" + (ns + "/" if r.chance(2, 3) else "") + r.pick(["n", "%2E", "a%2Fb", ".."]) \
            + (r.pick(["@1", "@%2e%2E", ""])) + (r.pick(["?k=v", "?k=%2e%2e/x", ""])) + ("#" + sub if r.chance(2, 3) else "")
        sh = r.pick(shapes)
        out.append(case("parse %s %s" % (sh, hx(s)), "pieces-random", s=s, shape=sh))
    return out
