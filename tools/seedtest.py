#!/usr/bin/env python3
"""seedtest.py — intake and replay of seeded defects.

  seedtest.py intake <name> <worktree> <property>   verify the agent's claims in its worktree, store under /verif/seeded/<name>/
  seedtest.py run <name> [props...] [--no-proof]    apply the patch to /repo, run the quick checks, undo, record which checks fire
  seedtest.py all [--no-proof]                      run every stored seeded defect against the check of its own property
  --shard=i/n                                       (with all) every n-th stored change from the i-th: shards run side by side
  --rig                                             do it in a private copy of /verif against a scratch worktree (not /repo)
"""
import json, os, re, shutil, subprocess, sys

ROOT = "/verif"
ENV = dict(os.environ, CARGO_NET_OFFLINE="true")
SEEDDIR = os.environ.get("SEED_DIR", "seeded")      # SEED_DIR=benign: the behaviour-preserving rewrites (every check must stay quiet)


def sh(cmd, cwd=None):
    p = subprocess.run(cmd, cwd=cwd, shell=isinstance(cmd, str), env=ENV, stdout=subprocess.PIPE, stderr=subprocess.STDOUT)
    return p.returncode, p.stdout.decode("utf-8", "replace")


def intake(name, wt, prop):
    d = os.path.join(ROOT, SEEDDIR, name)
    os.makedirs(d, exist_ok=True)
    for f in ("patch.diff", "demo.rs", "meta.json"):
        shutil.copy(os.path.join(wt, "seeded", f), os.path.join(d, f))
    meta = json.load(open(os.path.join(d, "meta.json")))
    # the patch must be what the worktree has
    rc, diff = sh("git diff -- purl/src", cwd=wt)
    open(os.path.join(d, "patch.diff"), "w").write(diff)
    ran = []
    # 1. with the change: existing suite passes (run before the demo is copied in: a demo that needs a feature must not
    #    break the default-feature build of the workspace), demo fails
    rc_suite, out_suite = sh("cargo nextest run --workspace --offline 2>&1 | tail -5", cwd=wt)
    # the 181 existing tests pass; a patch may bring unit tests of its own inside purl/src (then more are run)
    ms = re.search(r"(\d+) tests run: (\d+) passed", out_suite)
    suite_ok = bool(ms) and ms.group(1) == ms.group(2) and int(ms.group(1)) >= 181 and "failed" not in out_suite.split("tests run:")[-1]
    ran.append("with change: cargo nextest run --workspace --offline -> " + out_suite.strip().split("\n")[-1])
    os.makedirs(os.path.join(wt, "purl", "tests"), exist_ok=True)
    shutil.copy(os.path.join(d, "demo.rs"), os.path.join(wt, "purl", "tests", "seeded_demo.rs"))
    feat = " --features serde" if "demo_setup" in meta else ""
    rc_demo_with, out = sh("cargo test --offline -p purl%s --test seeded_demo 2>&1 | grep 'test result' | tail -1" % feat, cwd=wt)
    demo_with = out.strip()
    ran.append("with change: cargo test -p purl --test seeded_demo -> " + demo_with)
    # 2. without the change: demo passes
    # (not `git stash`: the stash is shared by all worktrees of a repository, and intakes run side by side)
    sh("git apply -R %s" % os.path.join(d, "patch.diff"), cwd=wt)
    rc, out = sh("cargo test --offline -p purl%s --test seeded_demo 2>&1 | grep 'test result' | tail -1" % feat, cwd=wt)
    demo_without = out.strip()
    ran.append("without change: cargo test -p purl --test seeded_demo -> " + demo_without)
    sh("git apply %s" % os.path.join(d, "patch.diff"), cwd=wt)
    os.unlink(os.path.join(wt, "purl", "tests", "seeded_demo.rs"))
    ok = suite_ok and ("FAILED" in demo_with or "failed" in demo_with and " 0 failed" not in demo_with) and " 0 failed" in demo_without and "ok" in demo_without
    meta.update({"name": name, "property": prop, "verified": {"existing_suite_passes_with_change": suite_ok, "demo_with_change": demo_with,
                 "demo_without_change": demo_without, "confirmed": ok, "ran": ran}})
    json.dump(meta, open(os.path.join(d, "meta.json"), "w"), indent=1, ensure_ascii=False)
    print("intake %s: suite_ok=%s demo_with=%r demo_without=%r -> confirmed=%s" % (name, suite_ok, demo_with, demo_without, ok))
    return ok


def make_rig(tag="s"):
    """a private copy of /verif whose harness points at a scratch worktree of /repo (nothing touches /repo itself)"""
    wt, rig = "/tmp/mw-%s" % tag, "/tmp/vj-%s" % tag
    sh("git -C /repo worktree remove --force " + wt)
    shutil.rmtree(wt, ignore_errors=True)
    shutil.rmtree(rig, ignore_errors=True)
    rc, out = sh("git -C /repo worktree add --detach %s HEAD" % wt)
    assert rc == 0, out
    rc, out = sh("rsync -a --exclude .git --exclude replays --exclude mutants %s/ %s/" % (ROOT, rig))
    assert rc in (0, 24), out       # 24: a build product vanished while copying (a build is running in /verif); the rig rebuilds
    ct = os.path.join(rig, "harness", "Cargo.toml")
    c = open(ct).read()
    open(ct, "w").write(c.replace('path = "/repo/purl"', 'path = "%s/purl"' % wt))
    return wt, rig


def drop_rig(tag="s"):
    wt, rig = "/tmp/mw-%s" % tag, "/tmp/vj-%s" % tag
    sh("git -C /repo worktree remove --force " + wt)
    shutil.rmtree(wt, ignore_errors=True)
    shutil.rmtree(rig, ignore_errors=True)
    sh("git -C /repo worktree prune")


def run(name, props, no_proof=False, rig=None):
    d = os.path.join(ROOT, SEEDDIR, name)
    meta = json.load(open(os.path.join(d, "meta.json")))
    props = props or [meta["property"]]
    repo, root, env = "/repo", ROOT, ENV
    if rig:
        repo, root = rig
        env = dict(ENV, PURL_REPO=repo)
    rc, out = sh("git -C %s status --porcelain --untracked-files=no" % repo)
    if out.strip():
        print("refusing: %s has local changes:\n" % repo + out)
        sys.exit(2)
    rc, out = sh("git -C %s apply %s" % (repo, os.path.join(d, "patch.diff")))
    if rc != 0:
        print("patch does not apply: " + out)
        return
    res = {}
    try:
        for p in props:
            cmd = [os.path.join(root, "check"), p] + (["--no-proof"] if no_proof else [])
            q = subprocess.run(cmd, cwd=root, env=env, stdout=subprocess.PIPE, stderr=subprocess.PIPE)
            lines = [l for l in q.stdout.decode().split("\n") if l.startswith("VIOLATION")]
            detail = ""
            if lines:
                rp = lines[0].split("replay=")[1].split(" ")[0]
                try:
                    r = json.load(open(os.path.join(root, rp)))
                    detail = (r.get("decoded", "") + " :: " + str(r.get("oracle", r.get("kind"))))[:300]
                except Exception:
                    pass
            res[p] = {"exit": q.returncode, "violation_lines": lines[:3], "first": detail}
            print("  %s on %s: exit %d %s %s" % (p, name, q.returncode, lines[0] if lines else "", detail[:160]))
    finally:
        sh("git -C %s checkout -- ." % repo)
    meta.setdefault("checks", {}).update(res)
    json.dump(meta, open(os.path.join(d, "meta.json"), "w"), indent=1, ensure_ascii=False)


def main():
    a = sys.argv[1:]
    no_proof = "--no-proof" in a
    use_rig = "--rig" in a
    shard = next((x for x in a if x.startswith("--shard=")), None)      # --shard=i/n: every n-th stored change, from the i-th
    a = [x for x in a if x not in ("--no-proof", "--rig") and not x.startswith("--shard=")]
    tag = "s%d" % os.getpid()       # private to this invocation: concurrent runs do not clobber each other's rig
    rig = make_rig(tag) if use_rig and a[0] in ("run", "all") else None
    if a[0] == "intake":
        intake(a[1], a[2], a[3])
    elif a[0] == "run":
        try:
            run(a[1], a[2:], no_proof, rig)
        finally:
            if rig:
                drop_rig(tag)
    elif a[0] == "all":
        try:
            names = sorted(os.listdir(os.path.join(ROOT, SEEDDIR)))
            if shard:
                i, n = shard.split("=")[1].split("/")
                names = names[int(i)::int(n)]
            for name in names:
                run(name, [], no_proof, rig)
        finally:
            if rig:
                drop_rig(tag)


if __name__ == "__main__":
    main()
