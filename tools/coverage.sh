#!/bin/sh
# Which lines of /repo/purl/src do the quick streams of all properties execute?  (self-test of the harness's request
# vocabulary; needs the nightly toolchain's llvm-tools.)  Everything is built and removed under /tmp.
set -e
W=/tmp/covh
B=$(ls -d /root/.rustup/toolchains/nightly-x86_64-unknown-linux-gnu/lib/rustlib/*/bin | head -1)
rm -rf $W && rsync -a --exclude 'target-*' /verif/harness/ $W/
(cd $W && RUSTFLAGS="-C instrument-coverage" CARGO_NET_OFFLINE=true CARGO_TARGET_DIR=$W/target cargo +nightly build --release --offline --features serde >/dev/null 2>&1)
(cd /verif/tools && python3 - <<'PY'
import sys
sys.path.insert(0, '.')
import registry
from props import Ctx
from purlgen import Unicode
uni = Unicode('/verif/build/unicode.json')
with open('/tmp/covh/ops.txt', 'w') as f:
    for p in sorted(registry.GENS):
        for c in registry.GENS[p](Ctx(0, "quick", uni, 1.0)):
            f.write(c['req'] + "\n")
PY
)
(cd $W && LLVM_PROFILE_FILE=$W/h.profraw ./target/release/purl-harness run < ops.txt > /dev/null
 $B/llvm-profdata merge -sparse h.profraw -o h.profdata
 $B/llvm-cov export ./target/release/purl-harness -instr-profile=h.profdata --ignore-filename-regex='(registry|rustc|harness/src|covh/src|rustlib)' -format=lcov > cov.lcov 2>/dev/null)
python3 - <<'PY'
import collections
cur = None
lines = collections.defaultdict(dict)
for l in open('/tmp/covh/cov.lcov'):
    l = l.strip()
    if l.startswith('SF:'):
        cur = l[3:]
    elif l.startswith('DA:'):
        n, c = l[3:].split(',')[:2]
        lines[cur][int(n)] = max(lines[cur].get(int(n), 0), int(c))
tot = miss = 0
for f in sorted(lines):
    m = [n for n, c in sorted(lines[f].items()) if c == 0]
    tot += len(lines[f]); miss += len(m)
    print("%-28s %4d lines, never executed: %s" % (f.replace('/repo/purl/src/', ''), len(lines[f]), m))
print("total %d lines, %d never executed" % (tot, miss))
PY
rm -rf $W
